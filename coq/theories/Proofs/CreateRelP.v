(* Relations between `create` and the spectrum operations (properties C04, C03, C06). Statements are FIXED; replace
   every Admitted by a proof. If a statement is FALSE as written, do not change it silently: prove the others, put the
   false one in a comment `(* FALSE: ... counterexample ... *)` and prove a corrected `<name>_fixed` (minimal change). *)
From Sfs Require Import Index ArrayM Scalar Spectrum Project Create Stat IndexP ArrayP MargP BinomP QsumP ProjectP
  CreateL CreateP CreateSpecP StatAux StatDefP.
From Coq Require Import Lia Permutation.

Close Scope Qc_scope. Close Scope Q_scope. Open Scope nat_scope.

(* the keys (per-population ALT counts) of the records that are complete for every selected sample *)
Definition complete_keys (cfg : reader_cfg) (items : list item) : list (list nat) :=
  map (fun it => fst (rec_counts (r_map cfg) (r_cols cfg) (d_of cfg) (item_gts it)))
      (filter (fun it => rec_complete (r_map cfg) (r_cols cfg) (item_gts it)) items).


(* ---------------------------------------------------------------- helpers *)
Lemma crp_count_filter_map {A B} (p : A -> bool) (q : B -> bool) (f : A -> B) l :
  length (filter (fun x => p x && q (f x)) l) = length (filter q (map f (filter p l))).
Proof.
  induction l as [|x l IH]; [reflexivity|]. cbn [filter]. destruct (p x); cbn [andb map filter].
  - destruct (q (f x)); cbn [length]; now rewrite IH.
  - assumption.
Qed.

Lemma crp_filter_length_ext {A} (p q : A -> bool) l : (forall x, p x = q x) -> length (filter p l) = length (filter q l).
Proof. intros H. now rewrite (filter_ext _ _ H). Qed.

Lemma crp_list_eqb_sym a b : list_eqb a b = list_eqb b a.
Proof.
  revert b; induction a as [|x a IH]; intros [|y b]; cbn [list_eqb]; try reflexivity.
  now rewrite IH, Nat.eqb_sym.
Qed.

Lemma crp_nth_map_indices (f : list nat -> Qc) sh i : positive_shape sh -> i < elements sh ->
  nth i (map f (indices sh)) 0%Qc = f (unflat sh i).
Proof.
  intros Hp Hi. rewrite (nth_indep _ 0%Qc (f [])) by (rewrite map_length, indices_length; assumption).
  now rewrite map_nth, nth_indices.
Qed.

Lemma crp_key_inb cfg it : cfg_wf cfg -> r_pto cfg = None -> no_selected_ploidy cfg it ->
  inb (r_shape cfg) (fst (rec_counts (r_map cfg) (r_cols cfg) (d_of cfg) (item_gts it))) = true.
Proof.
  intros Hwf Hpto Hnsp. pose proof Hnsp as (r & Hit & _). subst it.
  destruct (cs_site_analysis cfg r (init_sstate cfg) Hwf Hnsp)
    as (st1 & Hsteps & Hc1 & Ht1 & Hb1 & Hsk & HF & Hl1 & Hbound).
  { unfold init_sstate, d_of. cbn [s_counts]. apply repeat_length. }
  { unfold init_sstate, d_of. cbn [s_totals]. apply repeat_length. }
  destruct (cfg_wf_facts cfg Hwf) as (Hpos & Hshl & Hnd & Hpid & Hcase). rewrite Hpto in Hcase.
  cbn [item_gts]. rewrite <- Hc1.
  apply cs_inb_of_nth; [unfold d_of in Hl1; congruence|]. intros j Hj.
  rewrite (cs_map_shape_nth _ _ j Hcase) by lia.
  pose proof (cs_Forall2_le_nth _ _ j HF). pose proof (Hbound j). lia.
Qed.

(* C06/C01: the created spectrum IS the histogram of the complete sites' keys *)
Theorem create_is_hist cfg items :
  cfg_wf cfg -> r_pto cfg = None -> Forall (no_selected_ploidy cfg) items ->
  exists st, run_items cfg false (init_rstate cfg) items = inl st /\
             {| adata := scs st; ashape := r_shape cfg |} = hist (r_shape cfg) (complete_keys cfg items) /\
             keys_ok (r_shape cfg) (complete_keys cfg items).
Proof.
  intros Hwf Hpto HF.
  destruct (create_counts cfg items Hwf Hpto HF) as (st & Hrun & Hval).
  destruct (cfg_wf_facts cfg Hwf) as (Hpos & _).
  destruct (run_conservation cfg false items st Hwf Hrun) as (_ & _ & Hlen).
  exists st. split; [assumption|]. split.
  - unfold hist. f_equal.
    apply (nth_ext _ _ 0%Qc 0%Qc).
    + now rewrite map_length, indices_length.
    + intros i Hi. rewrite Hlen in Hi.
      rewrite crp_nth_map_indices by assumption.
      pose proof (inb_unflat _ _ Hpos Hi) as Hin.
      rewrite <- (flat_unflat _ _ Hpos Hi) at 1.
      rewrite (Hval _ Hin). f_equal. unfold count_key, complete_keys.
      rewrite (crp_count_filter_map
                 (fun it => rec_complete (r_map cfg) (r_cols cfg) (item_gts it))
                 (fun key => list_eqb key (unflat (r_shape cfg) i))
                 (fun it => fst (rec_counts (r_map cfg) (r_cols cfg) (d_of cfg) (item_gts it)))).
      apply crp_filter_length_ext. intros k. apply crp_list_eqb_sym.
  - unfold keys_ok, complete_keys. apply Forall_forall. intros k Hk.
    apply in_map_iff in Hk. destruct Hk as (it & <- & Hit). apply filter_In in Hit. destruct Hit as [Hit _].
    apply crp_key_inb; try assumption. rewrite Forall_forall in HF. now apply HF.
Qed.


(* ---------------------------------------------------------------- helpers for marg_hist *)
Lemma crp_get_hist sh keys k : positive_shape sh -> inb sh k = true ->
  get (hist sh keys) k = Some (qnat (count_key keys k)).
Proof. intros Hp Hk. unfold hist. exact (get_mk (fun k => qnat (count_key keys k)) sh k Hp Hk). Qed.

Lemma crp_one_key sh a k0 idx' : a < length sh -> inb sh k0 = true -> inb (remove_axis a sh) idx' = true ->
  qsum (map (fun i => qnat (if list_eqb (insert_axis a i idx') k0 then 1 else 0)) (seq 0 (nth a sh 0))) =
  qnat (if list_eqb idx' (remove_axis a k0) then 1 else 0).
Proof.
  intros Ha Hk Hi.
  assert (Hlk : length k0 = length sh) by now apply inb_length.
  assert (Hli : length idx' = length sh - 1).
  { apply inb_length in Hi. rewrite Hi. now apply remove_axis_length. }
  destruct (list_eqb idx' (remove_axis a k0)) eqn:E.
  - apply list_eqb_eq in E. subst idx'. rewrite qnat_1.
    rewrite <- (QsumP.qsum_delta (fun x (_ : nat) => list_eqb (insert_axis a x (remove_axis a k0)) k0)
                  (fun _ => 1%Qc) (seq 0 (nth a sh 0)) (nth a k0 0)).
    + apply QsumP.qsum_map_ext. intros i _.
      destruct (list_eqb (insert_axis a i (remove_axis a k0)) k0); [apply qnat_1|apply qnat_0].
    + intros x _. rewrite list_eqb_eq. split.
      * intros H. rewrite <- H. symmetry. apply nth_insert_axis. lia.
      * intros ->. apply insert_remove_axis. lia.
    + apply seq_NoDup.
    + apply in_seq. pose proof (nth_inb sh k0 a Hk Ha). lia.
  - rewrite qnat_0. apply QsumP.qsum_map_zero. intros i _.
    destruct (list_eqb (insert_axis a i idx') k0) eqn:E2; [|apply qnat_0].
    exfalso. apply list_eqb_eq in E2. subst k0. rewrite remove_insert_axis in E by lia.
    rewrite (proj2 (list_eqb_eq idx' idx') eq_refl) in E. discriminate.
Qed.

Lemma crp_count_axis sh a keys idx' : a < length sh -> keys_ok sh keys -> inb (remove_axis a sh) idx' = true ->
  qsum (map (fun i => qnat (count_key keys (insert_axis a i idx'))) (seq 0 (nth a sh 0))) =
  qnat (count_key (map (remove_axis a) keys) idx').
Proof.
  intros Ha Hk Hi. induction Hk as [|k0 ks Hk0 Hks IH].
  - cbn [map]. unfold count_key. cbn [filter length]. rewrite qnat_0.
    apply QsumP.qsum_map_zero. intros i _. apply qnat_0.
  - cbn [map]. rewrite count_key_cons, qnat_add, <- IH, <- (crp_one_key sh a k0 idx' Ha Hk0 Hi).
    rewrite <- QsumP.qsum_map_add. apply QsumP.qsum_map_ext. intros i _.
    now rewrite count_key_cons, qnat_add.
Qed.

(* C04: the marginal of a histogram over one axis is the histogram of the keys with that coordinate removed *)
Theorem marg_hist sh keys a : positive_shape sh -> 1 < length sh -> a < length sh -> keys_ok sh keys ->
  q_sum_axis (hist sh keys) a = hist (remove_axis a sh) (map (remove_axis a) keys).
Proof.
  intros Hp Hl Ha Hk.
  destruct (q_sum_axis_wf (hist sh keys) a (hist_wf sh keys)) as [Hwf Hsh]; [exact Hp|exact Ha|].
  change (ashape (hist sh keys)) with sh in Hsh.
  apply arr_ext.
  - exact Hwf.
  - apply hist_wf.
  - rewrite Hsh. now apply positive_remove_axis.
  - rewrite Hsh. reflexivity.
  - intros idx Hin. rewrite Hsh in Hin.
    rewrite q_sum_axis_get; [|apply hist_wf|exact Hp|exact Ha|exact Hin].
    rewrite crp_get_hist; [|now apply positive_remove_axis|exact Hin].
    f_equal. change (ashape (hist sh keys)) with sh.
    rewrite <- (crp_count_axis sh a keys idx Ha Hk Hin).
    apply QsumP.qsum_map_ext. intros i Hi. apply in_seq in Hi.
    apply hist_get; [exact Hp|]. rewrite inb_insert_axis by exact Ha. rewrite Hin, andb_true_r.
    apply Nat.ltb_lt. lia.
Qed.

(* C03: projecting a histogram = summing the per-site projection weights *)
Theorem project_hist sh to keys y : positive_shape sh -> keys_ok sh keys -> project (hist sh keys) to = inl y ->
  forall k', inb to k' = true ->
  q_getd y k' = qsum (map (fun key => project_value (dec sh) key (dec to) k') keys).
Proof.
  intros Hp Hk Hproj k' Hk'.
  destruct (project_refines_spec (hist sh keys) to y (hist_wf sh keys) Hproj) as (Hwy & Hsh & Hget).
  unfold q_getd. rewrite (Hget k' Hk'). unfold project_spec. change (ashape (hist sh keys)) with sh.
  exact (hist_sum sh keys (fun k => project_value (dec sh) k (dec to) k') Hp Hk).
Qed.


(* ---------------------------------------------------------------- helpers for create_then_project *)
Lemma crp_filter_all {A} (p : A -> bool) l : Forall (fun x => p x = true) l -> filter p l = l.
Proof. induction 1 as [|x l Hx Hl IH]; [reflexivity|]. cbn [filter]. now rewrite Hx, IH. Qed.

Lemma crp_all2_le a b : Forall2 le b a -> all2 (fun total t => t <=? total) a b = true.
Proof.
  induction 1 as [|x y b a Hxy H IH]; [reflexivity|]. cbn [all2]. rewrite IH, andb_true_r. now apply Nat.leb_le.
Qed.

Lemma crp_map_fst_combine {A B} (l : list A) (l' : list B) : length l = length l' -> map fst (combine l l') = l.
Proof.
  revert l'; induction l as [|x l IH]; intros [|y l'] H; cbn [length] in H; try discriminate; [reflexivity|].
  cbn [combine map fst]. f_equal. apply IH. lia.
Qed.

(* keys of a built map are distinct *)
Lemma crp_smap_insert_nodup m s v : NoDup (map fst m) -> NoDup (map fst (smap_insert m s v)).
Proof.
  induction m as [|[k' v'] m IH]; intros Hn; cbn [smap_insert].
  - cbn [map fst]. constructor; [intros []|constructor].
  - cbn [map fst] in Hn. inversion Hn as [|? ? Hk Hn']; subst.
    destruct (name_eqb s k') eqn:E; cbn [map fst]; [now constructor|].
    constructor; [|now apply IH]. intros Hin. apply cs_smap_insert_keys in Hin. destruct Hin as [->|Hin].
    + rewrite cs_name_eqb_refl in E. discriminate.
    + contradiction.
Qed.

Lemma crp_bm_fold_nodup l : forall st : list pop * smap, NoDup (map fst (snd st)) -> NoDup (map fst (snd (fold_left cs_bm_step l st))).
Proof.
  induction l as [|e l IH]; intros st H; cbn [fold_left]; [assumption|]. apply IH.
  unfold cs_bm_step. destruct (pops_get_or_insert (fst st) (snd e)) as [pops' id]. cbn [snd].
  now apply crp_smap_insert_nodup.
Qed.

Lemma crp_build_map_nodup l : NoDup (map fst (build_map l)).
Proof. rewrite cs_build_map_fold. apply crp_bm_fold_nodup. cbn [snd map]. constructor. Qed.

Lemma crp_cfg_keys cfg : cfg_wf cfg ->
  NoDup (map fst (r_map cfg)) /\ (forall s, In s (map fst (r_map cfg)) -> In s (r_cols cfg)).
Proof.
  intros (cols & samples & project & Hb & Hnd).
  unfold build_reader in Hb. cbv zeta in Hb.
  set (m := match samples with SamplesAll => _ | SamplesList l => _ end) in Hb.
  assert (Hm : NoDup (map fst m)).
  { subst m. destruct samples; [unfold map_from_all|]; apply crp_build_map_nodup. }
  clearbody m. revert Hb Hm.
  destruct m as [|e m0]; [intros Hb; discriminate|].
  destruct (map_shape (e :: m0)) as [from|] eqn:Hms; [|intros Hb; discriminate].
  destruct (find _ _) eqn:Hfind; [intros Hb; discriminate|].
  assert (Hin : forall s, In s (map fst (e :: m0)) -> In s cols).
  { intros s Hs. pose proof (find_none _ _ Hfind s Hs) as Hf. cbv beta in Hf.
    apply Bool.negb_false_iff in Hf. now apply cs_existsb_name in Hf. }
  clear Hfind. destruct project as [p|].
  - destruct (negb _); [intros Hb; discriminate|].
    destruct (first_smaller 0 from (project_arg_shape p)) as [[[d f] t]|]; [intros Hb; discriminate|].
    destruct (count_of_shape (project_arg_shape p)) as [pto|]; [|intros Hb; discriminate].
    intros Hb Hm. inversion Hb; subst cfg. cbn [r_map r_cols]. split; assumption.
  - intros Hb Hm. inversion Hb; subst cfg. cbn [r_map r_cols]. split; assumption.
Qed.

Lemma crp_smap_get_in m k v : NoDup (map fst m) -> In (k, v) m -> smap_get m k = Some v.
Proof.
  induction m as [|[k' v'] m IH]; intros Hn Hin; [destruct Hin|].
  cbn [map fst] in Hn. inversion Hn as [|? ? Hk Hn']; subst. cbn [smap_get]. destruct Hin as [Heq|Hin].
  - inversion Heq; subst. now rewrite cs_name_eqb_refl.
  - rewrite cs_name_eqb_neq; [now apply IH|]. intros ->. apply Hk.
    change k' with (fst (k', v)). now apply in_map.
Qed.

Lemma crp_count_id_filter j (m : smap) : count_id j (map snd m) = length (filter (fun e => snd e =? j) m).
Proof.
  induction m as [|[k v] m IH]; [reflexivity|]. cbn [map snd count_id filter].
  destruct (v =? j); cbn [length]; lia.
Qed.

Lemma crp_nodup_keys_filter (p : name * nat -> bool) (m : smap) : NoDup (map fst m) -> NoDup (map fst (filter p m)).
Proof.
  induction m as [|e m IH]; intros Hn; [constructor|]. cbn [map] in Hn. inversion Hn as [|? ? Hk Hn']; subst.
  cbn [filter]. destruct (p e); [|now apply IH]. cbn [map]. constructor; [|now apply IH].
  intros Hin. apply Hk. apply in_map_iff in Hin. destruct Hin as (e' & He' & Hin). apply filter_In in Hin.
  rewrite <- He'. apply in_map. tauto.
Qed.

Lemma crp_sel_count_eq m j cols : NoDup cols -> NoDup (map fst m) -> (forall s, In s (map fst m) -> In s cols) ->
  length (filter (cs_sel m j) cols) = count_id j (map snd m).
Proof.
  intros Hnd Hn Hin. apply Nat.le_antisymm; [now apply cs_sel_count|].
  rewrite crp_count_id_filter, <- (map_length fst).
  apply NoDup_incl_length; [now apply crp_nodup_keys_filter|].
  intros k Hk. apply in_map_iff in Hk. destruct Hk as ([k' v] & Hk' & He). cbn [fst] in Hk'. subst k'.
  apply filter_In in He. destruct He as [He Hv]. cbn [snd] in Hv. apply filter_In. split.
  - apply Hin. change k with (fst (k, v)). now apply in_map.
  - unfold cs_sel. now rewrite (crp_smap_get_in m k v Hn He).
Qed.

Lemma crp_totals_fold m d j ps :
  (forall s pid, smap_get m s = Some pid -> pid < d) -> forallb (cs_cpl m) ps = true ->
  forall c0 t0, length t0 = d ->
  nth j (snd (fold_left (cs_rc_step m) ps (c0, t0))) 0 = nth j t0 0 + 2 * length (filter (cs_sel m j) (map fst ps)) /\
  length (snd (fold_left (cs_rc_step m) ps (c0, t0))) = d.
Proof.
  intros Hpid. induction ps as [|[c g] ps IH]; intros Hc c0 t0 Hl.
  - cbn [fold_left snd map filter length]. split; [lia|assumption].
  - cbn [forallb] in Hc. apply andb_prop in Hc. destruct Hc as [Hcpl Hrest].
    cbn [fold_left map filter fst]. unfold cs_cpl in Hcpl. cbn [fst snd] in Hcpl.
    destruct (smap_get m c) as [pid|] eqn:Eg.
    + destruct g as [a| | |]; try discriminate.
      replace (cs_rc_step m (c0, t0) (c, GCalled a)) with (add_nth c0 pid a, add_nth t0 pid 2)
        by (unfold cs_rc_step; cbn [fst snd]; now rewrite Eg).
      assert (Hs : cs_sel m j c = (pid =? j)) by (unfold cs_sel; now rewrite Eg). rewrite Hs.
      destruct (IH Hrest (add_nth c0 pid a) (add_nth t0 pid 2)) as [H1 H2]; [now rewrite cs_add_nth_length|].
      split; [|exact H2]. rewrite H1, cp_nth_add_nth.
      pose proof (Hpid _ _ Eg) as Hlt.
      replace (pid <? length t0) with true by (symmetry; apply Nat.ltb_lt; lia). rewrite andb_true_r.
      rewrite (Nat.eqb_sym pid j). destruct (j =? pid) eqn:E; cbn [length]; [|lia].
      apply Nat.eqb_eq in E. subst. lia.
    + replace (cs_rc_step m (c0, t0) (c, g)) with (c0, t0)
        by (unfold cs_rc_step; cbn [fst snd]; now rewrite Eg).
      assert (Hs : cs_sel m j c = false) by (unfold cs_sel; now rewrite Eg). rewrite Hs.
      now apply IH.
Qed.

(* a record that is complete for every selected sample has all chromosomes called *)
Lemma crp_complete_totals cfg it : cfg_wf cfg -> r_pto cfg = None -> no_selected_ploidy cfg it ->
  rec_complete (r_map cfg) (r_cols cfg) (item_gts it) = true ->
  snd (rec_counts (r_map cfg) (r_cols cfg) (d_of cfg) (item_gts it)) = dec (r_shape cfg).
Proof.
  intros Hwf Hpto (r & -> & Hlen & _) Hc. cbn [item_gts] in *.
  destruct (cfg_wf_facts cfg Hwf) as (Hpos & Hshl & Hnd & Hpid & Hcase). rewrite Hpto in Hcase.
  destruct (crp_cfg_keys cfg Hwf) as [Hkn Hkin].
  rewrite cs_rec_complete_forallb in Hc. rewrite cs_rec_counts_fold.
  assert (Hr : length (repeat 0 (d_of cfg)) = d_of cfg) by apply repeat_length.
  apply (nth_ext _ _ 0 0).
  - destruct (crp_totals_fold (r_map cfg) (d_of cfg) 0 _ Hpid Hc (repeat 0 (d_of cfg)) (repeat 0 (d_of cfg)) Hr) as [_ Hl].
    rewrite Hl, dec_length. unfold d_of. now rewrite Hshl.
  - intros j Hj.
    destruct (crp_totals_fold (r_map cfg) (d_of cfg) j _ Hpid Hc (repeat 0 (d_of cfg)) (repeat 0 (d_of cfg)) Hr) as [H1 Hl].
    rewrite Hl in Hj. unfold d_of in Hj.
    rewrite H1, nth_repeat, nth_dec, (cs_map_shape_nth _ _ j Hcase) by exact Hj.
    rewrite crp_map_fst_combine by (now rewrite map_length).
    rewrite crp_sel_count_eq by assumption. lia.
Qed.

(* C03: projecting after creation = projecting during creation, when no selected genotype is missing or multiallelic *)
Theorem create_then_project cfg cfgp to items st stp y :
  cfg_wf cfg -> cfg_wf cfgp -> r_pto cfg = None -> r_pto cfgp = Some (dec to) ->
  r_map cfgp = r_map cfg -> r_cols cfgp = r_cols cfg -> r_shape cfgp = to -> positive_shape to ->
  Forall (no_selected_ploidy cfg) items ->
  Forall (fun it => rec_complete (r_map cfg) (r_cols cfg) (item_gts it) = true) items ->
  run_items cfg false (init_rstate cfg) items = inl st ->
  run_items cfgp false (init_rstate cfgp) items = inl stp ->
  project {| adata := scs st; ashape := r_shape cfg |} to = inl y ->
  y = {| adata := scs stp; ashape := to |}.
Proof.
  intros Hwf Hwfp Hpto Hptop Hmap Hcols Hshp Hposto HF Hcpl Hrun Hrunp Hproj.
  destruct (create_is_hist cfg items Hwf Hpto HF) as (st' & Hrun' & Hhist & Hkeys).
  rewrite Hrun in Hrun'. inversion Hrun'; subst st'. clear Hrun'. rewrite Hhist in Hproj.
  destruct (cfg_wf_facts cfg Hwf) as (Hpos & _).
  destruct (project_refines_spec _ to y (hist_wf _ _) Hproj) as (Hwy & Hshy & Hget).
  destruct (project_inv _ _ _ Hproj) as (_ & _ & Hle).
  change (ashape (hist (r_shape cfg) (complete_keys cfg items))) with (r_shape cfg) in Hle.
  assert (HFp : Forall (no_selected_ploidy cfgp) items).
  { eapply Forall_impl; [|exact HF]. intros it. unfold no_selected_ploidy. rewrite Hmap, Hcols. exact (fun H => H). }
  destruct (create_project_spec cfgp (dec to) items Hwfp Hptop HFp) as (stp' & Hrunp' & Hright).
  rewrite Hrunp in Hrunp'. inversion Hrunp'; subst stp'. clear Hrunp'.
  rewrite (map_S_dec to Hposto) in Hright.
  destruct (run_conservation cfgp false items stp Hwfp Hrunp) as (_ & _ & Hlenp). rewrite Hshp in Hlenp.
  apply arr_ext.
  - exact Hwy.
  - exact Hlenp.
  - rewrite Hshy. exact Hposto.
  - rewrite Hshy. reflexivity.
  - intros k Hk. rewrite Hshy in Hk. rewrite (Hget k Hk), get_spec. cbn [ashape adata]. rewrite Hk.
    rewrite (nth_error_nth' _ 0%Qc) by (rewrite Hlenp; now apply flat_lt).
    f_equal. rewrite (Hright k Hk). unfold project_spec.
    change (ashape (hist (r_shape cfg) (complete_keys cfg items))) with (r_shape cfg).
    rewrite (hist_sum (r_shape cfg) (complete_keys cfg items)
               (fun k0 => project_value (dec (r_shape cfg)) k0 (dec to) k) Hpos Hkeys).
    unfold complete_keys. rewrite (crp_filter_all _ items) by exact Hcpl. rewrite map_map.
    apply QsumP.qsum_map_ext. intros it Hit. cbv zeta.
    assert (Hd : d_of cfgp = d_of cfg) by (unfold d_of; now rewrite Hmap).
    rewrite Hmap, Hcols, Hd.
    rewrite Forall_forall in HF, Hcpl.
    rewrite (crp_complete_totals cfg it Hwf Hpto (HF it Hit) (Hcpl it Hit)).
    unfold covered. rewrite crp_all2_le by now apply Forall2_le_dec. reflexivity.
Qed.
