(* Projection is linear in the values (C03): scaling the spectrum scales the projection, the projection of a sum is the sum
   of the projections, and whether a projection is accepted depends on the shapes only. *)
From Sfs Require Import Index ArrayM Scalar Spectrum Project IndexP ArrayP QsumP BinomP ProjectP.
From Coq Require Import Lia QArith Qcanon.

Open Scope Qc_scope.

Definition scale (c : Qc) (x : spectrum) : spectrum := {| adata := map (Qcmult c) (adata x); ashape := ashape x |}.
Definition addsp (x x' : spectrum) : spectrum :=
  {| adata := map (fun p => fst p + snd p) (combine (adata x) (adata x')); ashape := ashape x |}.

(* ---- helpers ---- *)
Lemma q_getd_scale c (x : spectrum) k : q_getd (scale c x) k = c * q_getd x k.
Proof.
  unfold q_getd. rewrite !get_spec. cbn [scale ashape adata].
  destruct (inb (ashape x) k); [|ring].
  rewrite nth_error_map. destruct (nth_error (adata x) (flat (ashape x) k)); cbn [option_map]; [reflexivity|ring].
Qed.

Lemma nth_error_addcombine (a b : list Qc) i : length a = length b ->
  match nth_error (map (fun p => fst p + snd p) (combine a b)) i with Some v => v | None => 0 end =
  match nth_error a i with Some v => v | None => 0 end + match nth_error b i with Some v => v | None => 0 end.
Proof.
  revert b i. induction a as [|u a IH]; intros [|v b] i Hl; cbn [length] in Hl; try discriminate.
  - destruct i; cbn [combine map nth_error]; ring.
  - destruct i as [|i]; cbn [combine map nth_error fst snd]; [reflexivity|]. apply IH. now injection Hl.
Qed.

Lemma q_getd_add (x x' : spectrum) k : wf x -> wf x' -> ashape x = ashape x' ->
  q_getd (addsp x x') k = q_getd x k + q_getd x' k.
Proof.
  intros Hwf Hwf' Hs. unfold q_getd. rewrite !get_spec. cbn [addsp ashape adata]. rewrite <- Hs.
  destruct (inb (ashape x) k); [|ring].
  apply nth_error_addcombine. unfold wf in *. now rewrite Hwf, Hwf', Hs.
Qed.

Lemma map_combine_same {A} (f g : A -> Qc) l :
  map (fun p => fst p + snd p) (combine (map f l) (map g l)) = map (fun k => f k + g k) l.
Proof. rewrite combine_map, map_map. reflexivity. Qed.

Theorem scale_wf c x : wf x -> wf (scale c x).
Proof. unfold wf, scale. cbn [adata ashape]. now rewrite map_length. Qed.
Theorem addsp_wf x x' : wf x -> wf x' -> ashape x = ashape x' -> wf (addsp x x').
Proof.
  unfold wf, addsp. cbn [adata ashape]. intros H H' Hs.
  rewrite map_length, combine_length, H, H', Hs. apply Nat.min_id.
Qed.

Theorem project_spec_scale c x to k' : wf x -> project_spec (scale c x) to k' = c * project_spec x to k'.
Proof.
  intros _. unfold project_spec. cbn [scale ashape]. rewrite <- qsum_map_scale.
  apply qsum_map_ext. intros k _. rewrite q_getd_scale. ring.
Qed.

Theorem project_spec_add x x' to k' : wf x -> wf x' -> ashape x = ashape x' ->
  project_spec (addsp x x') to k' = project_spec x to k' + project_spec x' to k'.
Proof.
  intros Hwf Hwf' Hs. unfold project_spec. cbn [addsp ashape]. rewrite <- Hs, <- qsum_map_add.
  apply qsum_map_ext. intros k _. rewrite q_getd_add by assumption. ring.
Qed.

Theorem project_scale c x to y : wf x -> project x to = inl y -> project (scale c x) to = inl (scale c y).
Proof.
  intros Hwf H. apply project_inv_eq in H as (Hps & Hpt & Hle & ->); [|assumption].
  rewrite project_eq; [|now apply scale_wf|exact Hps|exact Hpt|exact Hle].
  f_equal. unfold mk_proj, scale at 2. cbn [adata ashape]. f_equal.
  rewrite map_map. apply map_ext. intros k'. now apply project_spec_scale.
Qed.

Theorem project_add x x' to y y' : wf x -> wf x' -> ashape x = ashape x' ->
  project x to = inl y -> project x' to = inl y' -> project (addsp x x') to = inl (addsp y y').
Proof.
  intros Hwf Hwf' Hs H H'.
  apply project_inv_eq in H as (Hps & Hpt & Hle & ->); [|assumption].
  apply project_inv_eq in H' as (_ & _ & _ & ->); [|assumption].
  rewrite project_eq; [|now apply addsp_wf|exact Hps|exact Hpt|exact Hle].
  f_equal. unfold mk_proj, addsp at 2. cbn [adata ashape]. f_equal.
  rewrite map_combine_same. apply map_ext. intros k'. now apply project_spec_add.
Qed.

(* acceptance and the error value depend on the two shapes only *)
Theorem project_error_shape_only x x' to e : wf x -> wf x' -> ashape x = ashape x' ->
  project x to = inr e -> project x' to = inr e.
Proof.
  intros _ _ Hs. unfold project. rewrite <- Hs.
  destruct (projection_from_shapes (ashape x) to) as [[pf pt]|e']; [discriminate|]. exact (fun H => H).
Qed.

Example project_scale_example :
  project (scale (Q2Qc (1 # 1024)) {| adata := map (fun n => Q2Qc (Z.of_nat n # 1)) [5; 0; 3; 1]%nat; ashape := [4]%nat |}) [2]%nat =
  inl (scale (Q2Qc (1 # 1024)) {| adata := [Q2Qc (6 # 1); Q2Qc (3 # 1)]; ashape := [2]%nat |}).
Proof.
  apply project_scale; [reflexivity|].
  match goal with |- project ?x ?t = _ => 
    assert (Hwf : wf x) by reflexivity;
    assert (Hps : positive_shape (ashape x)) by (cbn [ashape]; unfold positive_shape; repeat constructor);
    assert (Hpt : positive_shape t) by (unfold positive_shape; repeat constructor);
    assert (Hle : Forall2 le t (ashape x)) by (cbn [ashape]; repeat constructor);
    rewrite (project_eq x t Hwf Hps Hpt Hle)
  end.
  unfold mk_proj. apply f_equal. apply (f_equal (fun d => {| adata := d; ashape := [2]%nat |})).
  let l := eval vm_compute in (indices [2]%nat) in change (indices [2]%nat) with l.
  cbn [map].
  apply (f_equal2 cons); [|apply (f_equal2 cons); [|reflexivity]]; apply Qc_is_canon; vm_compute; reflexivity.
Qed.

