(* Lemmas about row-major index spaces: flat/unflat bijection, enumeration, mirror,
   axis insertion/removal. All unbounded (induction on the shape). *)
From Sfs Require Import Index.
From Coq Require Import Lia.

Lemma elements_pos sh : positive_shape sh -> 0 < elements sh.
Proof.
  induction 1 as [|n t Hn _ IH]; cbn [elements]; [lia|]. apply Nat.mul_pos_pos; assumption.
Qed.

Lemma positive_shape_cons n t : positive_shape (n :: t) <-> 0 < n /\ positive_shape t.
Proof. unfold positive_shape. split; [intros H; inversion H; auto | intros [? ?]; constructor; auto]. Qed.

Lemma positive_shapeb_iff sh : positive_shapeb sh = true <-> positive_shape sh.
Proof.
  unfold positive_shapeb, positive_shape. rewrite forallb_forall, Forall_forall.
  split; intros H x Hx; specialize (H x Hx); [apply Nat.ltb_lt in H | apply Nat.ltb_lt]; assumption.
Qed.

Lemma unflat_length sh i : length (unflat sh i) = length sh.
Proof. revert i; induction sh as [|n t IH]; intros i; cbn [unflat length]; [reflexivity|]. now rewrite IH. Qed.

Lemma flat_unflat_tail n t i : positive_shape t -> flat (n :: t) (unflat (n :: t) i) = i.
Proof.
  revert n i. induction t as [|m t IH]; intros n i Ht.
  - cbn [unflat flat elements]. rewrite Nat.div_1_r. lia.
  - apply positive_shape_cons in Ht as [Hm Ht].
    cbn [unflat flat]. specialize (IH m (i mod elements (m :: t)) Ht).
    cbn [unflat flat] in IH. rewrite IH.
    pose proof (elements_pos (m :: t)) as Hp.
    assert (0 < elements (m :: t)) as Hp' by (apply Hp; apply positive_shape_cons; auto).
    pose proof (Nat.div_mod i (elements (m :: t))). lia.
Qed.

Lemma flat_unflat sh i : positive_shape sh -> i < elements sh -> flat sh (unflat sh i) = i.
Proof.
  destruct sh as [|n t]; intros Hp Hi.
  - cbn in *. lia.
  - apply flat_unflat_tail. now apply positive_shape_cons in Hp.
Qed.

Lemma inb_length sh idx : inb sh idx = true -> length idx = length sh.
Proof.
  revert idx; induction sh as [|n t IH]; intros [|i r] H; cbn in *; try discriminate; auto.
  apply andb_prop in H as [_ H]. now rewrite (IH _ H).
Qed.

Lemma flat_lt sh idx : inb sh idx = true -> flat sh idx < elements sh.
Proof.
  revert idx; induction sh as [|n t IH]; intros [|i r] H; cbn in *; try discriminate; [lia|].
  apply andb_prop in H as [Hi H]. apply Nat.ltb_lt in Hi. specialize (IH _ H). nia.
Qed.

Lemma inb_unflat sh i : positive_shape sh -> i < elements sh -> inb sh (unflat sh i) = true.
Proof.
  revert i; induction sh as [|n t IH]; intros i Hp Hi; [reflexivity|].
  apply positive_shape_cons in Hp as [Hn Ht]. pose proof (elements_pos t Ht) as He.
  cbn [unflat inb elements] in *. apply andb_true_intro; split.
  - apply Nat.ltb_lt. apply Nat.div_lt_upper_bound; lia.
  - apply IH; auto. apply Nat.mod_upper_bound; lia.
Qed.

Lemma unflat_flat sh idx : inb sh idx = true -> unflat sh (flat sh idx) = idx.
Proof.
  revert idx; induction sh as [|n t IH]; intros [|i r] H; cbn [inb] in *; try discriminate; [reflexivity|].
  apply andb_prop in H as [Hi H]. pose proof (flat_lt _ _ H) as Hlt.
  cbn [flat unflat].
  assert (He : elements t <> 0) by lia.
  rewrite Nat.div_add_l by exact He. rewrite (Nat.div_small _ _ Hlt), Nat.add_0_r.
  rewrite Nat.add_comm, Nat.mod_add by exact He. rewrite (Nat.mod_small _ _ Hlt).
  now rewrite (IH _ H).
Qed.

(* the code's loop (n /= v) coincides with the spec on positive shapes *)
Lemma unflat_loop_unflat sh fl : positive_shape sh -> unflat_loop sh (elements sh) fl = unflat sh fl.
Proof.
  revert fl; induction sh as [|n t IH]; intros fl Hp; [reflexivity|].
  apply positive_shape_cons in Hp as [Hn Ht].
  cbn [unflat_loop unflat elements].
  replace (n * elements t / n) with (elements t) by (rewrite Nat.mul_comm, Nat.div_mul; lia).
  now rewrite IH.
Qed.

Lemma index_from_flat_unflat sh fl : positive_shape sh -> index_from_flat sh fl = unflat sh fl.
Proof. apply unflat_loop_unflat. Qed.

Lemma idxsum_loop_unflat sh fl : positive_shape sh -> idxsum_loop sh (elements sh) fl = lsum (unflat sh fl).
Proof.
  revert fl; induction sh as [|n t IH]; intros fl Hp; [reflexivity|].
  apply positive_shape_cons in Hp as [Hn Ht].
  cbn [idxsum_loop unflat elements lsum fold_right].
  replace (n * elements t / n) with (elements t) by (rewrite Nat.mul_comm, Nat.div_mul; lia).
  rewrite IH by assumption. reflexivity.
Qed.

Lemma index_sum_from_flat_spec sh fl : positive_shape sh -> index_sum_from_flat sh fl = lsum (unflat sh fl).
Proof. apply idxsum_loop_unflat. Qed.

(* strides *)
Lemma strides_length sh : length (strides sh) = length sh.
Proof. induction sh; cbn; auto. Qed.

Lemma dot_strides sh idx : dot (strides sh) idx = flat sh idx.
Proof.
  revert idx; induction sh as [|n t IH]; intros [|i r]; cbn [strides dot flat]; try reflexivity.
  rewrite IH. lia.
Qed.

Lemma all_lt_inb sh idx : length idx = length sh -> all_lt idx sh = inb sh idx.
Proof.
  revert idx; induction sh as [|n t IH]; intros [|i r] H; cbn in *; try discriminate; auto.
  now rewrite IH by lia.
Qed.

Lemma flat_index_spec sh idx :
  flat_index (strides sh) sh idx = if inb sh idx then Some (flat sh idx) else None.
Proof.
  unfold flat_index. rewrite strides_length, Nat.eqb_refl. cbn [andb].
  destruct (length sh =? length idx) eqn:E.
  - apply Nat.eqb_eq in E. rewrite all_lt_inb by lia. now rewrite dot_strides.
  - destruct (inb sh idx) eqn:Hin; [|reflexivity].
    apply inb_length in Hin. apply Nat.eqb_neq in E. lia.
Qed.

(* enumeration *)
Lemma seq_add_map s k m : seq (s + k) m = map (fun j => s + j) (seq k m).
Proof.
  revert k; induction m as [|m IH]; intros k; [reflexivity|].
  cbn [seq map]. f_equal. rewrite <- IH. f_equal. lia.
Qed.

Lemma seq_mul n m :
  seq 0 (n * m) = flat_map (fun i => map (fun j => i * m + j) (seq 0 m)) (seq 0 n).
Proof.
  induction n as [|n IH].
  - reflexivity.
  - rewrite seq_S, flat_map_app. cbn [flat_map]. rewrite app_nil_r, <- IH.
    replace (S n * m) with (n * m + m) by lia. rewrite seq_app. f_equal.
    cbn [Nat.add]. rewrite <- (seq_add_map (n * m) 0 m). f_equal. lia.
Qed.

Lemma flat_map_ext_in {A B} (f g : A -> list B) l :
  (forall x, In x l -> f x = g x) -> flat_map f l = flat_map g l.
Proof.
  induction l as [|x l IH]; intros H; [reflexivity|]. cbn. rewrite H by (left; reflexivity).
  f_equal. apply IH. intros y Hy. apply H. now right.
Qed.

Lemma map_flat_map {A B C} (f : B -> C) (g : A -> list B) l :
  map f (flat_map g l) = flat_map (fun x => map f (g x)) l.
Proof. induction l as [|x l IH]; [reflexivity|]. cbn. now rewrite map_app, IH. Qed.

Lemma indices_unflat sh : positive_shape sh -> indices sh = map (unflat sh) (seq 0 (elements sh)).
Proof.
  induction sh as [|n t IH]; intros Hp; [reflexivity|].
  apply positive_shape_cons in Hp as [Hn Ht]. pose proof (elements_pos t Ht) as He.
  cbn [indices elements]. rewrite seq_mul, map_flat_map.
  apply flat_map_ext_in. intros i _. rewrite IH by assumption. rewrite !map_map.
  apply map_ext_in. intros j Hj. apply in_seq in Hj.
  cbn [unflat]. f_equal.
  - rewrite Nat.div_add_l by lia. rewrite Nat.div_small by lia. lia.
  - f_equal. rewrite Nat.add_comm, Nat.mod_add by lia. symmetry. apply Nat.mod_small. lia.
Qed.

Lemma indices_length sh : length (indices sh) = elements sh.
Proof.
  induction sh as [|n t IH]; [reflexivity|]. cbn [indices elements].
  generalize 0. induction n as [|n IHn]; intros s; [reflexivity|].
  cbn [seq flat_map]. rewrite app_length, map_length, IH, IHn. lia.
Qed.

Lemma nth_indices sh i : positive_shape sh -> i < elements sh -> nth i (indices sh) [] = unflat sh i.
Proof.
  intros Hp Hi. rewrite indices_unflat by assumption.
  rewrite (nth_indep _ [] (unflat sh 0)) by (rewrite map_length, seq_length; assumption).
  rewrite map_nth. now rewrite seq_nth.
Qed.

Lemma in_indices sh idx : positive_shape sh -> (In idx (indices sh) <-> inb sh idx = true).
Proof.
  intros Hp. rewrite indices_unflat by assumption. rewrite in_map_iff. split.
  - intros [i [<- Hi]]. apply in_seq in Hi. apply inb_unflat; [assumption|lia].
  - intros H. exists (flat sh idx). split; [now apply unflat_flat|].
    apply in_seq. pose proof (flat_lt _ _ H). lia.
Qed.

Lemma NoDup_map_inj_in {A B} (f : A -> B) l :
  (forall x y, In x l -> In y l -> f x = f y -> x = y) -> NoDup l -> NoDup (map f l).
Proof.
  induction l as [|a l IH]; intros Hinj Hnd; cbn [map]; [constructor|].
  inversion Hnd as [|? ? Hna Hnd']; subst. constructor.
  - intros Hin. apply in_map_iff in Hin as [y [Hy Hin]].
    assert (y = a) by (apply Hinj; [now right | now left | assumption]). subst. contradiction.
  - apply IH; [|assumption]. intros x y Hx Hy. apply Hinj; now right.
Qed.

Lemma NoDup_indices sh : positive_shape sh -> NoDup (indices sh).
Proof.
  intros Hp. rewrite indices_unflat by assumption.
  apply NoDup_map_inj_in; [|apply seq_NoDup].
  intros i j Hi Hj Heq. apply in_seq in Hi, Hj.
  rewrite <- (flat_unflat sh i), <- (flat_unflat sh j) by (assumption || lia). now rewrite Heq.
Qed.

(* mirror *)
Lemma mirror_inb sh idx : inb sh idx = true -> inb sh (mirror sh idx) = true.
Proof.
  revert idx; induction sh as [|n t IH]; intros [|i r] H; cbn in *; try discriminate; auto.
  apply andb_prop in H as [Hi H]. apply Nat.ltb_lt in Hi. rewrite IH by assumption.
  rewrite andb_true_r. apply Nat.ltb_lt. lia.
Qed.

Lemma flat_mirror sh idx : inb sh idx = true -> flat sh (mirror sh idx) = elements sh - 1 - flat sh idx.
Proof.
  revert idx; induction sh as [|n t IH]; intros [|i r] H; cbn [inb] in *; try discriminate; [reflexivity|].
  apply andb_prop in H as [Hi H]. apply Nat.ltb_lt in Hi.
  pose proof (flat_lt _ _ H) as Hlt. cbn [mirror flat elements]. rewrite IH by assumption.
  assert (Hmul : n * elements t = (n - 1 - i) * elements t + (i * elements t + elements t)) by nia.
  nia.
Qed.

Lemma mirror_involutive sh idx : inb sh idx = true -> mirror sh (mirror sh idx) = idx.
Proof.
  revert idx; induction sh as [|n t IH]; intros [|i r] H; cbn in *; try discriminate; auto.
  apply andb_prop in H as [Hi H]. apply Nat.ltb_lt in Hi. rewrite IH by assumption. f_equal. lia.
Qed.

Lemma lsum_mirror sh idx : inb sh idx = true -> lsum (mirror sh idx) + lsum idx + length sh = lsum sh.
Proof.
  revert idx; induction sh as [|n t IH]; intros [|i r] H; cbn [inb] in *; try discriminate; [reflexivity|].
  apply andb_prop in H as [Hi H]. apply Nat.ltb_lt in Hi. specialize (IH _ H).
  cbn [mirror lsum fold_right length] in *. unfold lsum in IH. lia.
Qed.

(* insert / remove *)
Lemma remove_insert_axis {A} a (x : A) l : a <= length l -> remove_axis a (insert_axis a x l) = l.
Proof.
  revert a; induction l as [|y l IH]; intros a Ha; cbn [length] in Ha.
  - assert (a = 0) by lia. subst. reflexivity.
  - destruct a as [|a]; [reflexivity|].
    change (insert_axis (S a) x (y :: l)) with (y :: insert_axis a x l).
    change (remove_axis (S a) (y :: insert_axis a x l)) with (y :: remove_axis a (insert_axis a x l)).
    f_equal. apply IH. lia.
Qed.

Lemma insert_remove_axis {A} a (d : A) l : a < length l -> insert_axis a (nth a l d) (remove_axis a l) = l.
Proof.
  revert a; induction l as [|y l IH]; intros a Ha; cbn [length] in Ha; [lia|].
  destruct a as [|a]; [reflexivity|].
  unfold insert_axis, remove_axis in *. cbn. f_equal. apply IH. lia.
Qed.

Lemma remove_axis_length {A} a (l : list A) : a < length l -> length (remove_axis a l) = length l - 1.
Proof.
  intros Ha. unfold remove_axis. rewrite app_length, firstn_length_le, skipn_length by lia. lia.
Qed.

Lemma insert_axis_length {A} a (x : A) l : length (insert_axis a x l) = S (length l).
Proof.
  unfold insert_axis. rewrite app_length. cbn [length].
  rewrite <- (firstn_skipn a l) at 3. rewrite app_length. lia.
Qed.

Lemma remove_axis_cons {A} a (x : A) l : remove_axis (S a) (x :: l) = x :: remove_axis a l.
Proof. reflexivity. Qed.
Lemma insert_axis_cons {A} a (x y : A) l : insert_axis (S a) x (y :: l) = y :: insert_axis a x l.
Proof. reflexivity. Qed.
Lemma remove_axis_0 {A} (x : A) l : remove_axis 0 (x :: l) = l.
Proof. reflexivity. Qed.
Lemma insert_axis_0 {A} (x : A) l : insert_axis 0 x l = x :: l.
Proof. reflexivity. Qed.

Lemma nth_insert_axis {A} a (x d : A) l : a <= length l -> nth a (insert_axis a x l) d = x.
Proof.
  revert a; induction l as [|y l IH]; intros [|a] Ha; cbn [length] in Ha; try reflexivity; try lia.
  rewrite insert_axis_cons. cbn [nth]. apply IH. lia.
Qed.

Lemma positive_remove_axis a sh : positive_shape sh -> positive_shape (remove_axis a sh).
Proof.
  unfold positive_shape, remove_axis. rewrite !Forall_forall. intros H x Hx.
  apply in_app_or in Hx as [Hx|Hx]; apply H.
  - rewrite <- (firstn_skipn a sh). apply in_or_app. now left.
  - rewrite <- (firstn_skipn (S a) sh). apply in_or_app. now right.
Qed.

Lemma elements_remove_axis a sh : a < length sh -> elements sh = nth a sh 0 * elements (remove_axis a sh).
Proof.
  revert a; induction sh as [|n t IH]; intros a Ha; cbn [length] in Ha; [lia|].
  destruct a as [|a].
  - reflexivity.
  - rewrite remove_axis_cons. cbn [elements nth]. rewrite (IH a) by lia. lia.
Qed.

(* the view offset formula: position of an index with coordinate i inserted at axis a *)
Lemma flat_insert_axis sh a i idx' :
  a < length sh -> length idx' = length sh - 1 ->
  flat sh (insert_axis a i idx') = i * nth a (strides sh) 0 + dot (remove_axis a (strides sh)) idx'.
Proof.
  revert a idx'; induction sh as [|n t IH]; intros a idx' Ha Hl; cbn [length] in *; [lia|].
  destruct a as [|a].
  - rewrite insert_axis_0. cbn [flat strides nth]. rewrite remove_axis_0. now rewrite dot_strides.
  - destruct idx' as [|j r]; cbn [length] in Hl.
    + destruct t; cbn [length] in *; lia.
    + rewrite insert_axis_cons. cbn [flat strides nth]. rewrite remove_axis_cons. cbn [dot].
      rewrite (IH a r) by lia. lia.
Qed.

Lemma inb_insert_axis sh a i idx' :
  a < length sh ->
  inb sh (insert_axis a i idx') = (i <? nth a sh 0) && inb (remove_axis a sh) idx'.
Proof.
  revert a idx'; induction sh as [|n t IH]; intros a idx' Ha; cbn [length] in *; [lia|].
  destruct a as [|a].
  - reflexivity.
  - rewrite remove_axis_cons. destruct idx' as [|j r].
    + destruct t as [|m t']; cbn [length] in Ha; [lia|].
      unfold insert_axis. cbn. now rewrite !andb_false_r.
    + rewrite insert_axis_cons. cbn [inb nth]. rewrite (IH a r) by lia.
      now rewrite !andb_assoc, (andb_comm (j <? n)).
Qed.

Lemma inb_remove_axis sh a idx : a < length sh -> inb sh idx = true -> inb (remove_axis a sh) (remove_axis a idx) = true.
Proof.
  revert a idx; induction sh as [|n t IH]; intros a [|i r] Ha H; cbn [length inb] in *; try discriminate; try lia.
  apply andb_prop in H as [Hi H]. destruct a as [|a].
  - exact H.
  - rewrite !remove_axis_cons. cbn [inb]. rewrite Hi. apply IH; [lia|assumption].
Qed.

Lemma nth_inb sh idx a : inb sh idx = true -> a < length sh -> nth a idx 0 < nth a sh 0.
Proof.
  revert a idx; induction sh as [|n t IH]; intros a [|i r] H Ha; cbn [length inb] in *; try discriminate; try lia.
  apply andb_prop in H as [Hi H]. apply Nat.ltb_lt in Hi. destruct a; cbn [nth]; [assumption|].
  apply IH; [assumption|lia].
Qed.
