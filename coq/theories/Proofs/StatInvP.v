(* Proofs for property C14 (invariances of the statistics). Statements are FIXED; replace every Admitted by a
   proof. If a statement is FALSE as written, do not change it silently: prove the others, put the false one in a
   comment `(* FALSE: ... counterexample ... *)` and prove a corrected `<name>_fixed`. *)
From Sfs Require Import Index ArrayM Scalar Spectrum Project Stat IndexP ArrayP MargP FoldP StatL.
From Coq Require Import Lia.

Close Scope Qc_scope. Close Scope Q_scope. Open Scope nat_scope.

Definition all_ge (k : nat) (sh : shape) : Prop := Forall (fun n => k <= n) sh.
Definition scale (c : Qc) (x : spectrum) : spectrum := {| adata := map (fun v => (c * v)%Qc) (adata x); ashape := ashape x |}.
(* swapping the two populations of a 2-D spectrum *)
Definition transpose2 (x : spectrum) : spectrum :=
  let a := nth 0 (ashape x) 0 in let b := nth 1 (ashape x) 0 in
  {| adata := map (fun p => q_getd x [p mod a; p / a]) (seq 0 (a * b)); ashape := [b; a] |}.
(* same shape, same entries except possibly the first and the last (the two monomorphic entries) *)
Definition same_polymorphic (x y : spectrum) : Prop :=
  ashape x = ashape y /\ length (adata x) = length (adata y) /\
  forall i, 0 < i -> i < length (adata x) - 1 -> nth i (adata x) 0%Qc = nth i (adata y) 0%Qc.


(* ---- helpers about scale / normalize ---- *)
Lemma scale_data c x : adata (scale c x) = map (fun v => (c * v)%Qc) (adata x).
Proof. reflexivity. Qed.
Lemma scale_shape c x : ashape (scale c x) = ashape x.
Proof. reflexivity. Qed.
Lemma normalize_data x : adata (normalize x) = map (fun v => (v / spectrum_sum x)%Qc) (adata x).
Proof. reflexivity. Qed.
Lemma normalize_shape x : ashape (normalize x) = ashape x.
Proof. reflexivity. Qed.
Lemma normalize_wf x : wf x -> wf (normalize x).
Proof. unfold wf. rewrite normalize_data, normalize_shape, map_length. auto. Qed.
Lemma normalize_length x : length (adata (normalize x)) = length (adata x).
Proof. rewrite normalize_data. apply map_length. Qed.

Lemma get_map_data (f : Qc -> Qc) (x : spectrum) idx :
  get {| adata := map f (adata x); ashape := ashape x |} idx = option_map f (get x idx).
Proof.
  rewrite !get_spec. change (ashape {| adata := map f (adata x); ashape := ashape x |}) with (ashape x).
  change (adata {| adata := map f (adata x); ashape := ashape x |}) with (map f (adata x)).
  destruct (inb (ashape x) idx); [|reflexivity]. apply nth_error_map.
Qed.
Lemma get_normalize x idx : get (normalize x) idx = option_map (fun v => (v / spectrum_sum x)%Qc) (get x idx).
Proof. apply (get_map_data (fun v => (v / spectrum_sum x)%Qc)). Qed.
Lemma get_scale c x idx : get (scale c x) idx = option_map (fun v => (c * v)%Qc) (get x idx).
Proof. apply (get_map_data (fun v => (c * v)%Qc)). Qed.
Lemma q_getd_normalize x idx : q_getd (normalize x) idx = (q_getd x idx / spectrum_sum x)%Qc.
Proof. unfold q_getd. rewrite get_normalize. destruct (get x idx); cbn [option_map]; [reflexivity|]. unfold Qcdiv. ring. Qed.
Lemma q_getd_scale c x idx : q_getd (scale c x) idx = (c * q_getd x idx)%Qc.
Proof. unfold q_getd. rewrite get_scale. destruct (get x idx); cbn [option_map]; [reflexivity|]. ring. Qed.
Lemma scale_sum c x : spectrum_sum (scale c x) = (c * spectrum_sum x)%Qc.
Proof. unfold spectrum_sum. rewrite scale_data. apply qsum_map_mul. Qed.
Lemma all_ge2_positive sh : all_ge 2 sh -> positive_shape sh.
Proof. apply ge2_positive. Qed.
Lemma dims3 (x : spectrum) : dimensions x = 3 -> exists a b c, ashape x = [a; b; c].
Proof. unfold dimensions. destruct (ashape x) as [|a [|b [|c [|]]]]; try discriminate. eauto. Qed.
Lemma dims4 (x : spectrum) : dimensions x = 4 -> exists a b c d, ashape x = [a; b; c; d].
Proof. unfold dimensions. destruct (ashape x) as [|a [|b [|c [|d [|]]]]]; try discriminate. eauto 6. Qed.
Lemma dims2 (x : spectrum) : dimensions x = 2 -> exists a b, ashape x = [a; b].
Proof. unfold dimensions. destruct (ashape x) as [|a [|b [|]]]; try discriminate. eauto. Qed.
Lemma dims1 (x : spectrum) : dimensions x = 1 -> exists a, ashape x = [a].
Proof. unfold dimensions. destruct (ashape x) as [|a [|]]; try discriminate. eauto. Qed.
Lemma inb3 a b c idx : inb [a; b; c] idx = true -> exists i j k, idx = [i; j; k].
Proof. intros H. apply inb_length in H. destruct idx as [|i [|j [|k [|]]]]; try discriminate. eauto. Qed.
Lemma inb4 a b c d idx : inb [a; b; c; d] idx = true -> exists i j k l, idx = [i; j; k; l].
Proof. intros H. apply inb_length in H. destruct idx as [|i [|j [|k [|l [|]]]]]; try discriminate. eauto 6. Qed.
Lemma qnat2_neq0 : qnat 2 <> 0%Qc.
Proof. apply qnat_neq0. lia. Qed.

(* ---- f3 / f4 from two-population marginals (pointwise polynomial identity + Fubini) ---- *)
Theorem f3_as_f2 x : wf x -> dimensions x = 3 -> all_ge 2 (ashape x) ->
  f3_unchecked x = ((f2_unchecked (q_sum_axis x 2) + f2_unchecked (q_sum_axis x 1) - f2_unchecked (q_sum_axis x 0)) / qnat 2)%Qc.
Proof.
  intros Hwf Hd Hge. pose proof (all_ge2_positive _ Hge) as Hp.
  rewrite (f2_marg1 x 2), (f2_marg1 x 1), (f2_marg1 x 0) by (assumption || lia).
  rewrite (f3_idx x Hwf Hp).
  unfold Qcdiv. rewrite <- qsum_map_add, <- qsum_map_sub, <- qsum_mul_r.
  apply qsum_map_ext_in. intros idx Hin. apply in_indices in Hin; [|assumption].
  destruct (dims3 x Hd) as (a & b & c & Hsh). rewrite Hsh in *.
  destruct (inb3 _ _ _ _ Hin) as (i & j & k & ->).
  unfold remove_axis. cbn [firstn skipn app freqs]. unfold w2, w3, fr. cbn [nth].
  generalize (q_getd x [i; j; k]) (qnat i / qnat (a - 1))%Qc (qnat j / qnat (b - 1))%Qc (qnat k / qnat (c - 1))%Qc.
  intros q f1 f2 f3. rewrite qnat_2. field. discriminate.
Qed.
Theorem f4_as_f2 x : wf x -> dimensions x = 4 -> all_ge 2 (ashape x) ->
  f4_unchecked x =
  ((f2_unchecked (q_sum_axis (q_sum_axis x 2) 1) + f2_unchecked (q_sum_axis (q_sum_axis x 3) 0)
    - f2_unchecked (q_sum_axis (q_sum_axis x 3) 1) - f2_unchecked (q_sum_axis (q_sum_axis x 2) 0)) / qnat 2)%Qc.
Proof.
  intros Hwf Hd Hge. pose proof (all_ge2_positive _ Hge) as Hp.
  rewrite (f2_marg2 x 2 1), (f2_marg2 x 3 0), (f2_marg2 x 3 1), (f2_marg2 x 2 0) by (assumption || lia).
  rewrite (f4_idx x Hwf Hp).
  unfold Qcdiv. rewrite <- qsum_map_add, <- !qsum_map_sub, <- qsum_mul_r.
  apply qsum_map_ext_in. intros idx Hin. apply in_indices in Hin; [|assumption].
  destruct (dims4 x Hd) as (a & b & c & d & Hsh). rewrite Hsh in *.
  destruct (inb4 _ _ _ _ _ Hin) as (i & j & k & l & ->).
  unfold remove_axis. cbn [firstn skipn app freqs]. unfold w2, w4, fr. cbn [nth].
  generalize (q_getd x [i; j; k; l]) (qnat i / qnat (a - 1))%Qc (qnat j / qnat (b - 1))%Qc
             (qnat k / qnat (c - 1))%Qc (qnat l / qnat (d - 1))%Qc.
  intros q f1 f2 f3 f4. rewrite qnat_2. field. discriminate.
Qed.
(* normalisation commutes with marginalisation, so the same holds for what `stat` prints *)
Theorem normalize_sum_axis x a : wf x -> positive_shape (ashape x) -> a < dimensions x -> 1 < dimensions x ->
  normalize (q_sum_axis x a) = q_sum_axis (normalize x) a.
Proof.
  intros Hwf Hp Ha _.
  destruct (q_sum_axis_wf x a Hwf Hp Ha) as [W1 S1].
  pose proof (normalize_wf x Hwf) as Wn.
  assert (Pn : positive_shape (ashape (normalize x))) by (rewrite normalize_shape; exact Hp).
  assert (An : a < dimensions (normalize x)) by exact Ha.
  destruct (q_sum_axis_wf (normalize x) a Wn Pn An) as [W2 S2].
  apply MargP.arr_ext.
  - now apply normalize_wf.
  - exact W2.
  - rewrite normalize_shape, S1. now apply positive_remove_axis.
  - rewrite normalize_shape, S1, S2, normalize_shape. reflexivity.
  - intros idx Hin. rewrite normalize_shape, S1 in Hin.
    rewrite get_normalize, (q_sum_axis_get x a idx Hwf Hp Ha Hin).
    assert (Hin' : inb (remove_axis a (ashape (normalize x))) idx = true) by (rewrite normalize_shape; exact Hin).
    rewrite (q_sum_axis_get (normalize x) a idx Wn Pn An Hin'). rewrite normalize_shape.
    cbn [option_map]. f_equal. rewrite (q_sum_axis_mass x a Hwf Hp Ha).
    symmetry. apply qsum_map_div_ext. intros i. apply q_getd_normalize.
Qed.
Theorem f3_as_f2_calc x v : wf x -> dimensions x = 3 -> all_ge 2 (ashape x) -> calculate SF3 x = inl (SVal v) ->
  exists a b c, calculate SF2 (q_sum_axis x 2) = inl (SVal a) /\ calculate SF2 (q_sum_axis x 1) = inl (SVal b) /\
                calculate SF2 (q_sum_axis x 0) = inl (SVal c) /\ v = ((a + b - c) / qnat 2)%Qc.
Proof.
  intros Hwf Hd Hge Hc. pose proof (all_ge2_positive _ Hge) as Hp.
  unfold calculate, dimk in Hc. rewrite Hd in Hc. cbn [Nat.eqb lift] in Hc. inversion Hc as [Hv]. clear Hc.
  assert (Hdim : forall a, a < 3 -> dimensions (q_sum_axis x a) = 2).
  { intros a Ha. assert (Ha' : a < dimensions x) by lia.
    destruct (q_sum_axis_wf x a Hwf Hp Ha') as [_ S1].
    unfold dimensions in *. rewrite S1, remove_axis_length by lia. lia. }
  exists (f2_unchecked (normalize (q_sum_axis x 2))), (f2_unchecked (normalize (q_sum_axis x 1))),
         (f2_unchecked (normalize (q_sum_axis x 0))).
  repeat split; try (unfold calculate, dimk; rewrite Hdim by lia; reflexivity).
  rewrite !normalize_sum_axis by (assumption || lia).
  apply f3_as_f2; [now apply normalize_wf|exact Hd|exact Hge].
Qed.

(* ---- folding with fill zero ---- *)
Theorem fold_S x : wf x -> positive_shape (ashape x) -> segregating_sites (fold0 x) = segregating_sites x.
Proof. apply fold_S_gen. Qed.
Theorem fold_pi x : wf x -> dimensions x = 1 -> all_ge 2 (ashape x) -> pi_unchecked (fold0 x) = pi_unchecked x.
Proof.
  intros Hwf _ Hge. apply fold_theta_generic; [assumption|now apply all_ge2_positive|apply w_tajima_sym].
Qed.
Theorem fold_theta x : wf x -> dimensions x = 1 -> all_ge 2 (ashape x) -> theta_w_unchecked (fold0 x) = theta_w_unchecked x.
Proof.
  intros Hwf _ Hge. apply fold_theta_generic; [assumption|now apply all_ge2_positive|reflexivity].
Qed.
Theorem fold_d_tajima x : wf x -> dimensions x = 1 -> all_ge 2 (ashape x) -> d_tajima_parts (fold0 x) = d_tajima_parts x.
Proof.
  intros Hwf Hd Hge. unfold d_tajima_parts. cbv zeta.
  rewrite fold0_length, (fold_pi x Hwf Hd Hge), (fold_theta x Hwf Hd Hge),
    (fold_S x Hwf (all_ge2_positive _ Hge)). reflexivity.
Qed.
Theorem fold_pixy x : wf x -> dimensions x = 2 -> all_ge 2 (ashape x) -> pixy_unchecked (fold0 x) = pixy_unchecked x.
Proof.
  intros Hwf Hd Hge. pose proof (all_ge2_positive _ Hge) as Hp. destruct (dims2 x Hd) as (a & b & Hs).
  rewrite Hs in Hge. inversion Hge as [|? ? Ha Hge']; subst. inversion Hge' as [|? ? Hb _]; subst.
  destruct (fold0_wf x Hwf) as [Wf _].
  rewrite (pixy_flat (fold0 x) a b), (pixy_flat x a b) by (assumption || lia).
  rewrite fold0_length. f_equal.
  apply (fold_wsum x (wpx a b) 1 (length (adata x) - 2) Hwf Hp (poly_range _)).
  intros i Hi. rewrite (wf_len2 x a b Hwf Hs) in *. apply wpx_sym; lia.
Qed.
Theorem fold_normalize x : wf x -> positive_shape (ashape x) -> normalize (fold0 x) = fold0 (normalize x).
Proof.
  intros Hwf Hp. apply FoldP.arr_ext; [|reflexivity].
  rewrite normalize_data, (fold_mass x Hwf Hp), (fold0_data x), (fold0_data (normalize x)), normalize_length, map_map.
  apply map_ext. intros i. unfold fcell. rewrite normalize_shape, normalize_length, normalize_data, !nth_div.
  unfold cellv. destruct (Nat.compare _ _); [destruct (_ =? _)| |]; cbn [unopt]; unfold Qcdiv; ring.
Qed.
Theorem fold_f2 x : wf x -> dimensions x = 2 -> all_ge 2 (ashape x) -> f2_unchecked (fold0 x) = f2_unchecked x.
Proof.
  intros Hwf Hd Hge. pose proof (all_ge2_positive _ Hge) as Hp. destruct (fold0_wf x Hwf) as [Wf _].
  rewrite (f2_flat (fold0 x)), (f2_flat x) by assumption. rewrite fold0_shape, fold0_length.
  apply (fold_fsum x w2 0 (length (adata x)) Hwf Hge); [right; lia|].
  intros fs Hfs. rewrite Hd in Hfs. destruct fs as [|p [|q [|]]]; cbn [length] in Hfs; try lia.
  unfold w2, fr. cbn [map nth]. ring.
Qed.
Theorem fold_f3 x : wf x -> dimensions x = 3 -> all_ge 2 (ashape x) -> f3_unchecked (fold0 x) = f3_unchecked x.
Proof.
  intros Hwf Hd Hge. pose proof (all_ge2_positive _ Hge) as Hp. destruct (fold0_wf x Hwf) as [Wf _].
  rewrite (f3_flat (fold0 x)), (f3_flat x) by assumption. rewrite fold0_shape, fold0_length.
  apply (fold_fsum x w3 0 (length (adata x)) Hwf Hge); [right; lia|].
  intros fs Hfs. rewrite Hd in Hfs. destruct fs as [|p [|q [|r [|]]]]; cbn [length] in Hfs; try lia.
  unfold w3, fr. cbn [map nth]. ring.
Qed.
Theorem fold_f4 x : wf x -> dimensions x = 4 -> all_ge 2 (ashape x) -> f4_unchecked (fold0 x) = f4_unchecked x.
Proof.
  intros Hwf Hd Hge. pose proof (all_ge2_positive _ Hge) as Hp. destruct (fold0_wf x Hwf) as [Wf _].
  rewrite (f4_flat (fold0 x)), (f4_flat x) by assumption. rewrite fold0_shape, fold0_length.
  apply (fold_fsum x w4 0 (length (adata x)) Hwf Hge); [right; lia|].
  intros fs Hfs. rewrite Hd in Hfs. destruct fs as [|p [|q [|r [|t [|]]]]]; cbn [length] in Hfs; try lia.
  unfold w4, fr. cbn [map nth]. ring.
Qed.
Theorem fold_fst x : wf x -> dimensions x = 2 -> all_ge 3 (ashape x) -> fst_parts (fold0 x) = fst_parts x.
Proof.
  intros Hwf Hd Hge3. pose proof (ge3_ge2 _ Hge3) as Hge.
  pose proof (all_ge2_positive _ Hge) as Hp. destruct (fold0_wf x Hwf) as [Wf _].
  rewrite (fst_parts_flat (fold0 x)), (fst_parts_flat x) by assumption. rewrite fold0_shape, fold0_length.
  f_equal.
  - apply (fold_fsum x (wnum (ashape x)) 1 (length (adata x) - 2) Hwf Hge (poly_range _)).
    intros fs Hfs. rewrite Hd in Hfs. destruct fs as [|p [|q [|]]]; cbn [length] in Hfs; try lia.
    unfold wnum, fr. cbn [map nth]. unfold Qcdiv. ring.
  - apply (fold_fsum x wden 1 (length (adata x) - 2) Hwf Hge (poly_range _)).
    intros fs Hfs. rewrite Hd in Hfs. destruct fs as [|p [|q [|]]]; cbn [length] in Hfs; try lia.
    unfold wden, fr. cbn [map nth]. ring.
Qed.
Theorem fold_king_r0_r1 x : wf x -> ashape x = [3; 3] ->
  king_unchecked (fold0 x) = king_unchecked x /\ r0_unchecked (fold0 x) = r0_unchecked x /\ r1_unchecked (fold0 x) = r1_unchecked x.
Proof.
  intros Hwf Hs. destruct (fold0_wf x Hwf) as [Wf _].
  assert (Hsf : ashape (fold0 x) = [3; 3]) by exact Hs.
  destruct (fold0_33 x Hwf Hs) as (E1 & E2 & E3 & E4 & E5 & E6 & E7).
  unfold king_unchecked, r0_unchecked, r1_unchecked. unfold qsum. cbn [fold_left].
  rewrite !(g2_33 (fold0 x)), !(g2_33 x) by (assumption || lia).
  cbn [Nat.mul Nat.add]. rewrite E1, E2, E3, E4, E5, E6, E7.
  generalize (dat x 1) (dat x 2) (dat x 3) (dat x 4) (dat x 5) (dat x 6) (dat x 7).
  intros d1 d2 d3 d4 d5 d6 d7. rewrite qhalf_inv, qnat_2. unfold Qcdiv.
  repeat split.
  - f_equal; [|f_equal]; field; discriminate.
  - f_equal; [|f_equal]; field; discriminate.
  - f_equal; [|f_equal]; field; discriminate.
Qed.

(* ---- the two monomorphic entries do not matter (everything except sum, f2, f3, f4) ---- *)
Theorem mono_S x y : same_polymorphic x y -> segregating_sites x = segregating_sites y.
Proof.
  intros (Hsh & Hl & Hn). unfold segregating_sites.
  rewrite (polymorphic_nth (adata x) 0%Qc), (polymorphic_nth (adata y) 0%Qc), <- Hl.
  f_equal. apply map_ext_in. intros i Hi. apply in_seq in Hi. apply Hn; lia.
Qed.

Lemma theta_generic_mono w x y : same_polymorphic x y -> theta_generic w x = theta_generic w y.
Proof.
  intros (Hsh & Hl & Hn). unfold theta_generic. cbv zeta. rewrite <- Hl.
  f_equal. apply map_ext_in. intros i Hi. apply in_seq in Hi. rewrite Hn by lia. reflexivity.
Qed.
Theorem mono_pi_theta x y : same_polymorphic x y ->
  pi_unchecked x = pi_unchecked y /\ theta_w_unchecked x = theta_w_unchecked y /\
  d_tajima_parts x = d_tajima_parts y /\ d_fuli_parts x = d_fuli_parts y.
Proof.
  intros H. pose proof (mono_S x y H) as HS.
  pose proof (theta_generic_mono w_tajima x y H) as Hpi.
  pose proof (theta_generic_mono w_watterson x y H) as Hth.
  destruct H as (Hsh & Hl & Hn).
  split; [exact Hpi|]. split; [exact Hth|]. split.
  - unfold d_tajima_parts, pi_unchecked, theta_w_unchecked. cbv zeta. rewrite <- Hl, HS, Hpi, Hth. reflexivity.
  - unfold d_fuli_parts, theta_w_unchecked. cbv zeta. rewrite <- Hl, HS, Hth. f_equal.
    destruct (le_lt_dec 3 (length (adata x))) as [H3|H3].
    + unfold theta_fuli_unchecked. rewrite (Hn 1) by lia. reflexivity.
    + assert (Hh : harmonic (length (adata x) - 1) = 0%Qc).
      { unfold harmonic, p_harmonic. replace (length (adata x) - 1 - 1) with 0 by lia. reflexivity. }
      rewrite Hh. ring.
Qed.
Theorem mono_pixy x y : wf x -> wf y -> dimensions x = 2 -> all_ge 2 (ashape x) -> same_polymorphic x y ->
  pixy_unchecked x = pixy_unchecked y.
Proof.
  intros Hwx Hwy Hd Hge (Hsh & Hl & Hn). destruct (dims2 x Hd) as (a & b & Hs).
  rewrite Hs in Hge. inversion Hge as [|? ? Ha Hge']; subst. inversion Hge' as [|? ? Hb _]; subst.
  rewrite (pixy_flat x a b), (pixy_flat y a b) by (try congruence; assumption || lia).
  rewrite <- Hl. f_equal. apply qsum_map_ext_in. intros i Hi. apply in_seq in Hi.
  unfold dat. rewrite Hn by lia. reflexivity.
Qed.

Lemma fst_parts_normalize x : wf x -> positive_shape (ashape x) ->
  fst_parts (normalize x) = ((fst (fst_parts x) / spectrum_sum x)%Qc, (snd (fst_parts x) / spectrum_sum x)%Qc).
Proof.
  intros Hwf Hp. rewrite (fst_parts_flat (normalize x)) by (try apply normalize_wf; assumption).
  rewrite (fst_parts_flat x Hwf Hp). rewrite normalize_shape, normalize_length. cbn [fst snd].
  f_equal; apply qsum_map_div_ext; intros i; unfold dat; rewrite normalize_data, nth_div; unfold Qcdiv; ring.
Qed.
Lemma fst_parts_mono x y : wf x -> wf y -> positive_shape (ashape x) -> same_polymorphic x y ->
  fst_parts x = fst_parts y.
Proof.
  intros Hwx Hwy Hp (Hsh & Hl & Hn).
  rewrite (fst_parts_flat x Hwx Hp), (fst_parts_flat y) by (try rewrite <- Hsh; assumption).
  rewrite <- Hsh, <- Hl.
  f_equal; apply qsum_map_ext_in; intros i Hi; apply in_seq in Hi; unfold dat; rewrite Hn by lia; reflexivity.
Qed.
Theorem mono_fst x y : wf x -> wf y -> dimensions x = 2 -> all_ge 3 (ashape x) -> same_polymorphic x y ->
  spectrum_sum x <> 0%Qc -> spectrum_sum y <> 0%Qc ->
  fst_unchecked (normalize x) = fst_unchecked (normalize y).
Proof.
  intros Hwx Hwy Hd Hge Hsp Hsx Hsy.
  assert (Hp : positive_shape (ashape x)) by (apply all_ge2_positive, ge3_ge2; exact Hge).
  assert (Hpy : positive_shape (ashape y)) by (destruct Hsp as (Hsh & _); rewrite <- Hsh; exact Hp).
  unfold fst_unchecked. rewrite (fst_parts_normalize x Hwx Hp), (fst_parts_normalize y Hwy Hpy). cbn [fst snd].
  rewrite !Qc_div_div by assumption. rewrite (fst_parts_mono x y Hwx Hwy Hp Hsp). reflexivity.
Qed.
Theorem mono_king_r0_r1 x y : wf x -> wf y -> ashape x = [3; 3] -> same_polymorphic x y ->
  king_unchecked x = king_unchecked y /\ r0_unchecked x = r0_unchecked y /\ r1_unchecked x = r1_unchecked y.
Proof.
  intros Hwx Hwy Hs (Hsh & Hl & Hn).
  assert (Hsy : ashape y = [3; 3]) by congruence.
  pose proof (wf_len2 x 3 3 Hwx Hs) as Hlen.
  assert (Hg : forall i j, i < 3 -> j < 3 -> 0 < i * 3 + j < 8 -> g2 x i j = g2 y i j).
  { intros i j Hi Hj Hij. rewrite (g2_33 x), (g2_33 y) by assumption. unfold dat. apply Hn; lia. }
  unfold king_unchecked, r0_unchecked, r1_unchecked.
  rewrite !(Hg 0 1), !(Hg 0 2), !(Hg 1 0), !(Hg 1 1), !(Hg 1 2), !(Hg 2 0), !(Hg 2 1) by lia.
  repeat split; reflexivity.
Qed.

(* ---- swapping the two populations ---- *)
Lemma transpose2_eq x a b : ashape x = [a; b] ->
  transpose2 x = {| adata := map (fun p => q_getd x [p mod a; p / a]) (seq 0 (a * b)); ashape := [b; a] |}.
Proof. intros Hs. unfold transpose2. rewrite Hs. reflexivity. Qed.

Lemma transpose2_props x a b : wf x -> ashape x = [a; b] ->
  wf (transpose2 x) /\ ashape (transpose2 x) = [b; a] /\
  forall i j, i < a -> j < b -> q_getd (transpose2 x) [j; i] = q_getd x [i; j].
Proof.
  intros Hwf Hs. pose proof (transpose2_eq x a b Hs) as Ht.
  assert (Hd : adata (transpose2 x) = map (fun p => q_getd x [p mod a; p / a]) (seq 0 (a * b)))
    by (rewrite Ht; reflexivity).
  assert (St : ashape (transpose2 x) = [b; a]) by (rewrite Ht; reflexivity).
  assert (W : wf (transpose2 x)).
  { unfold wf. rewrite Hd, St, map_length, seq_length. cbn [elements]. lia. }
  split; [exact W|]. split; [exact St|].
  intros i j Hi Hj. rewrite (q_getd_2d (transpose2 x) b a j i W St Hj Hi).
  unfold dat. rewrite Hd.
  assert (Hlt : j * a + i < a * b) by nia.
  rewrite (nth_map_seq (fun p => q_getd x [p mod a; p / a]) (a * b) (j * a + i) 0%Qc Hlt).
  f_equal. f_equal; [|f_equal].
  - rewrite Nat.add_comm, Nat.mod_add by lia. apply Nat.mod_small. exact Hi.
  - rewrite Nat.div_add_l by lia. rewrite Nat.div_small by exact Hi. lia.
Qed.

Lemma transpose_sum x a b (G G' : list nat -> Qc) : wf x -> ashape x = [a; b] ->
  (forall i j, i < a -> j < b -> G' [j; i] = G [i; j]) ->
  qsum (map (fun idx => (q_getd (transpose2 x) idx * G' idx)%Qc) (indices [b; a])) =
  qsum (map (fun idx => (q_getd x idx * G idx)%Qc) (indices [a; b])).
Proof.
  intros Hwf Hs HG. destruct (transpose2_props x a b Hwf Hs) as (_ & _ & Gt).
  rewrite !sum2d.
  rewrite (qsum_swap (fun i j => (q_getd x [i; j] * G [i; j])%Qc) (seq 0 a) (seq 0 b)).
  apply qsum_map_ext_in. intros j Hj. apply in_seq in Hj.
  apply qsum_map_ext_in. intros i Hi. apply in_seq in Hi.
  rewrite Gt, HG by lia. reflexivity.
Qed.

Lemma transpose_dat x a b i j : wf x -> ashape x = [a; b] -> i < a -> j < b ->
  dat (transpose2 x) (j * a + i) = dat x (i * b + j).
Proof.
  intros Hwf Hs Hi Hj. destruct (transpose2_props x a b Hwf Hs) as (W & St & Gt).
  rewrite <- (q_getd_2d (transpose2 x) b a j i W St Hj Hi), <- (q_getd_2d x a b i j Hwf Hs Hi Hj).
  now apply Gt.
Qed.

Lemma unflat_at sh idx k : inb sh idx = true -> flat sh idx = k -> unflat sh k = idx.
Proof. intros Hin <-. now apply unflat_flat. Qed.

Lemma inb2 a b i j : i < a -> j < b -> inb [a; b] [i; j] = true.
Proof.
  intros Hi Hj. cbn [inb]. apply andb_true_intro. split; [now apply Nat.ltb_lt|].
  apply andb_true_intro. split; [now apply Nat.ltb_lt|reflexivity].
Qed.

Lemma transpose_sum_flat x a b (G G' : list nat -> Qc) : wf x -> ashape x = [a; b] -> 0 < a -> 0 < b ->
  (forall i j, i < a -> j < b -> G' [j; i] = G [i; j]) ->
  qsum (map (fun k => (dat (transpose2 x) k * G' (unflat [b; a] k))%Qc) (seq 0 (a * b))) =
  qsum (map (fun k => (dat x k * G (unflat [a; b] k))%Qc) (seq 0 (a * b))).
Proof.
  intros Hwf Hs Ha Hb HG. destruct (transpose2_props x a b Hwf Hs) as (Wt & St & _).
  assert (Hp : positive_shape (ashape x)) by (rewrite Hs; repeat constructor; lia).
  assert (Pt : positive_shape (ashape (transpose2 x))) by (rewrite St; repeat constructor; lia).
  pose proof (flat_idx_sum (transpose2 x) G' Wt Pt) as F1.
  rewrite St, (wf_len2 (transpose2 x) b a Wt St), (Nat.mul_comm b a) in F1.
  pose proof (flat_idx_sum x G Hwf Hp) as F2. rewrite Hs, (wf_len2 x a b Hwf Hs) in F2.
  rewrite F1, F2. now apply transpose_sum.
Qed.

Lemma transpose_poly_sum x a b (G G' : list nat -> Qc) : wf x -> ashape x = [a; b] -> 2 <= a -> 2 <= b ->
  (forall i j, i < a -> j < b -> G' [j; i] = G [i; j]) ->
  qsum (map (fun k => (dat (transpose2 x) k * G' (unflat [b; a] k))%Qc) (seq 1 (a * b - 2))) =
  qsum (map (fun k => (dat x k * G (unflat [a; b] k))%Qc) (seq 1 (a * b - 2))).
Proof.
  intros Hwf Hs Ha Hb HG.
  assert (HL : 2 <= a * b) by nia.
  set (hT := fun k => (dat (transpose2 x) k * G' (unflat [b; a] k))%Qc).
  set (h := fun k => (dat x k * G (unflat [a; b] k))%Qc).
  pose proof (qsum_seq_ends hT (a * b) HL) as ET. pose proof (qsum_seq_ends h (a * b) HL) as E.
  assert (Htot : qsum (map hT (seq 0 (a * b))) = qsum (map h (seq 0 (a * b))))
    by (apply transpose_sum_flat; (assumption || lia)).
  assert (H0 : hT 0 = h 0).
  { unfold hT, h.
    rewrite (unflat_at [b; a] [0; 0] 0), (unflat_at [a; b] [0; 0] 0) by (try apply inb2; try reflexivity; lia).
    pose proof (transpose_dat x a b 0 0 Hwf Hs) as D. cbn [Nat.mul Nat.add] in D. rewrite D by lia.
    rewrite HG by lia. reflexivity. }
  assert (H1 : hT (a * b - 1) = h (a * b - 1)).
  { unfold hT, h.
    rewrite (unflat_at [b; a] [b - 1; a - 1] (a * b - 1)), (unflat_at [a; b] [a - 1; b - 1] (a * b - 1))
      by (try apply inb2; try (cbn [flat elements]; nia); lia).
    pose proof (transpose_dat x a b (a - 1) (b - 1) Hwf Hs) as D.
    replace ((b - 1) * a + (a - 1)) with (a * b - 1) in D by nia.
    replace ((a - 1) * b + (b - 1)) with (a * b - 1) in D by nia.
    rewrite D by lia. rewrite HG by lia. reflexivity. }
  transitivity (qsum (map hT (seq 0 (a * b))) - hT O - hT (a * b - 1)%nat)%Qc; [rewrite ET; ring|].
  rewrite Htot, H0, H1, E. ring.
Qed.

Definition gpx (a b : nat) (idx : list nat) : Qc :=
  match idx with [i; j] => qnat (i * (b - 1 - j) + j * (a - 1 - i)) | _ => 0%Qc end.
Lemma wpx_gpx a b k : wpx a b k = gpx a b (unflat [a; b] k).
Proof. cbn [unflat elements]. rewrite Nat.mul_1_r, Nat.div_1_r. reflexivity. Qed.

Theorem transpose2_wf x : wf x -> dimensions x = 2 -> wf (transpose2 x) /\
  forall i j, i < nth 0 (ashape x) 0 -> j < nth 1 (ashape x) 0 -> q_getd (transpose2 x) [j; i] = q_getd x [i; j].
Proof.
  intros Hwf Hd. destruct (dims2 x Hd) as (a & b & Hs). rewrite Hs. cbn [nth].
  destruct (transpose2_props x a b Hwf Hs) as (W & _ & G). split; assumption.
Qed.
Theorem swap_f2 x : wf x -> dimensions x = 2 -> all_ge 2 (ashape x) -> f2_unchecked (transpose2 x) = f2_unchecked x.
Proof.
  intros Hwf Hd Hge. pose proof (all_ge2_positive _ Hge) as Hp. destruct (dims2 x Hd) as (a & b & Hs).
  rewrite Hs in Hge. inversion Hge as [|? ? Ha Hge']; subst. inversion Hge' as [|? ? Hb _]; subst.
  destruct (transpose2_props x a b Hwf Hs) as (Wt & St & _).
  assert (Pt : positive_shape (ashape (transpose2 x))) by (rewrite St; repeat constructor; lia).
  rewrite (f2_idx (transpose2 x) Wt Pt), (f2_idx x Hwf Hp), St, Hs.
  apply (transpose_sum x a b (fun idx => w2 (freqs idx [a; b])) (fun idx => w2 (freqs idx [b; a])) Hwf Hs).
  intros i j Hi Hj. cbn [freqs]. unfold w2, fr. cbn [nth]. ring.
Qed.
Theorem swap_fst x : wf x -> dimensions x = 2 -> all_ge 3 (ashape x) ->
  fst_parts (transpose2 x) = fst_parts x.
Proof.
  intros Hwf Hd Hge3. pose proof (ge3_ge2 _ Hge3) as Hge.
  pose proof (all_ge2_positive _ Hge) as Hp. destruct (dims2 x Hd) as (a & b & Hs).
  rewrite Hs in Hge. inversion Hge as [|? ? Ha Hge']; subst. inversion Hge' as [|? ? Hb _]; subst.
  destruct (transpose2_props x a b Hwf Hs) as (Wt & St & _).
  assert (Pt : positive_shape (ashape (transpose2 x))) by (rewrite St; repeat constructor; lia).
  rewrite (fst_parts_flat (transpose2 x) Wt Pt), (fst_parts_flat x Hwf Hp), St, Hs.
  rewrite (wf_len2 (transpose2 x) b a Wt St), (wf_len2 x a b Hwf Hs), (Nat.mul_comm b a).
  f_equal.
  - apply (transpose_poly_sum x a b (fun idx => wnum [a; b] (freqs idx [a; b]))
             (fun idx => wnum [b; a] (freqs idx [b; a])) Hwf Hs Ha Hb).
    intros i j Hi Hj. cbn [freqs]. unfold wnum, fr. cbn [nth]. ring.
  - apply (transpose_poly_sum x a b (fun idx => wden (freqs idx [a; b]))
             (fun idx => wden (freqs idx [b; a])) Hwf Hs Ha Hb).
    intros i j Hi Hj. cbn [freqs]. unfold wden, fr. cbn [nth]. ring.
Qed.
Theorem swap_pixy x : wf x -> dimensions x = 2 -> all_ge 2 (ashape x) -> pixy_unchecked (transpose2 x) = pixy_unchecked x.
Proof.
  intros Hwf Hd Hge. destruct (dims2 x Hd) as (a & b & Hs).
  rewrite Hs in Hge. inversion Hge as [|? ? Ha Hge']; subst. inversion Hge' as [|? ? Hb _]; subst.
  destruct (transpose2_props x a b Hwf Hs) as (Wt & St & _).
  rewrite (pixy_flat (transpose2 x) b a Wt St), (pixy_flat x a b Hwf Hs) by lia.
  rewrite (wf_len2 (transpose2 x) b a Wt St), (wf_len2 x a b Hwf Hs), (Nat.mul_comm b a).
  rewrite (Nat.mul_comm (b - 1) (a - 1)). f_equal.
  transitivity (qsum (map (fun k => (dat (transpose2 x) k * gpx b a (unflat [b; a] k))%Qc) (seq 1 (a * b - 2)))).
  { apply qsum_map_ext_in. intros k _. now rewrite wpx_gpx. }
  transitivity (qsum (map (fun k => (dat x k * gpx a b (unflat [a; b] k))%Qc) (seq 1 (a * b - 2)))).
  - apply (transpose_poly_sum x a b (gpx a b) (gpx b a) Hwf Hs Ha Hb).
    intros i j Hi Hj. unfold gpx. f_equal. apply Nat.add_comm.
  - apply qsum_map_ext_in. intros k _. now rewrite wpx_gpx.
Qed.
Theorem swap_king_r0_r1 x : wf x -> ashape x = [3; 3] ->
  king_unchecked (transpose2 x) = king_unchecked x /\ r0_unchecked (transpose2 x) = r0_unchecked x /\
  r1_unchecked (transpose2 x) = r1_unchecked x.
Proof.
  intros Hwf Hs. destruct (transpose2_props x 3 3 Hwf Hs) as (_ & _ & Gt).
  assert (Hg : forall i j, i < 3 -> j < 3 -> g2 (transpose2 x) j i = g2 x i j) by (intros; now apply Gt).
  unfold king_unchecked, r0_unchecked, r1_unchecked. unfold qsum. cbn [fold_left].
  rewrite !(Hg 1 0), !(Hg 2 0), !(Hg 0 1), !(Hg 1 1), !(Hg 2 1), !(Hg 0 2), !(Hg 1 2) by lia.
  unfold Qcdiv. repeat split; f_equal; try ring; f_equal; ring.
Qed.

(* ---- scaling by a positive constant ---- *)
Theorem scale_normalize c x : c <> 0%Qc -> spectrum_sum x <> 0%Qc -> normalize (scale c x) = normalize x.
Proof.
  intros Hc Hs. apply FoldP.arr_ext; [|reflexivity].
  rewrite !normalize_data, scale_sum, scale_data, map_map.
  apply map_ext. intros v. apply Qc_div_scale. exact Hc.
Qed.

Lemma g2_scale c x i j : g2 (scale c x) i j = (c * g2 x i j)%Qc.
Proof. apply q_getd_scale. Qed.
Lemma king_scale c x : c <> 0%Qc -> king_unchecked (scale c x) = king_unchecked x.
Proof.
  intros Hc. unfold king_unchecked. rewrite !g2_scale.
  match goal with |- (?a / ?b = ?n / ?d)%Qc =>
    replace a with (c * n)%Qc by ring; replace b with (c * d)%Qc by ring end.
  now apply Qc_div_scale.
Qed.
Lemma r0_scale c x : c <> 0%Qc -> r0_unchecked (scale c x) = r0_unchecked x.
Proof.
  intros Hc. unfold r0_unchecked. rewrite !g2_scale.
  match goal with |- (?a / ?b = ?n / ?d)%Qc =>
    replace a with (c * n)%Qc by ring end.
  now apply Qc_div_scale.
Qed.
Lemma r1_scale c x : c <> 0%Qc -> r1_unchecked (scale c x) = r1_unchecked x.
Proof.
  intros Hc. unfold r1_unchecked. rewrite !g2_scale. unfold qsum. cbn [fold_left].
  match goal with |- (?a / ?b = ?n / ?d)%Qc =>
    replace b with (c * d)%Qc by ring end.
  now apply Qc_div_scale.
Qed.
Lemma theta_generic_scale w c x : theta_generic w (scale c x) = (c * theta_generic w x)%Qc.
Proof.
  unfold theta_generic. rewrite scale_data, map_length. cbv zeta.
  apply qsum_map_scale_ext. intros i. rewrite nth_scale. ring.
Qed.
Lemma S_scale c x : segregating_sites (scale c x) = (c * segregating_sites x)%Qc.
Proof. unfold segregating_sites. rewrite scale_data, polymorphic_map. apply qsum_map_mul. Qed.
Lemma pixy_scale c x : pixy_unchecked (scale c x) = (c * pixy_unchecked x)%Qc.
Proof.
  unfold pixy_unchecked. rewrite scale_data, scale_shape, map_length. cbv zeta.
  unfold Qcdiv. rewrite Qcmult_assoc. f_equal.
  apply qsum_map_scale_ext. intros [m1 m2]. rewrite q_getd_scale. ring.
Qed.
Theorem scale_degree0 c x s : (0 < c)%Qc -> spectrum_sum x <> 0%Qc ->
  In s [SF2; SF3; SF4; SFst; SKing; SR0; SR1] -> calculate s (scale c x) = calculate s x.
Proof.
  intros Hc Hs Hin.
  assert (Hc0 : c <> 0%Qc) by (intros E; rewrite E in Hc; exact (Qclt_not_eq _ _ Hc eq_refl)).
  cbn [In] in Hin.
  destruct Hin as [<-|[<-|[<-|[<-|[<-|[<-|[<-|[]]]]]]]]; unfold calculate.
  - rewrite scale_normalize by assumption. reflexivity.
  - rewrite scale_normalize by assumption. reflexivity.
  - rewrite scale_normalize by assumption. reflexivity.
  - rewrite scale_normalize by assumption. reflexivity.
  - rewrite king_scale by assumption. reflexivity.
  - rewrite r0_scale by assumption. reflexivity.
  - rewrite r1_scale by assumption. reflexivity.
Qed.
Theorem scale_degree1 c x s v : (0 < c)%Qc -> In s [SSum; SS; SPi; SPiXY; STheta] ->
  calculate s x = inl (SVal v) -> calculate s (scale c x) = inl (SVal (c * v)%Qc).
Proof.
  intros Hc Hin Hv. cbn [In] in Hin.
  destruct Hin as [<-|[<-|[<-|[<-|[<-|[]]]]]]; unfold calculate in *.
  - inversion Hv. rewrite scale_sum. reflexivity.
  - inversion Hv. rewrite S_scale. reflexivity.
  - unfold stat_pi, dim1 in *. change (dimensions (scale c x)) with (dimensions x).
    destruct (dimensions x =? 1); cbn [lift] in *; [|discriminate].
    inversion Hv. unfold pi_unchecked. rewrite theta_generic_scale. reflexivity.
  - unfold stat_pixy, dimk in *. change (dimensions (scale c x)) with (dimensions x).
    destruct (dimensions x =? 2); cbn [lift] in *; [|discriminate].
    inversion Hv. rewrite pixy_scale. reflexivity.
  - unfold stat_theta, dim1 in *. change (dimensions (scale c x)) with (dimensions x).
    destruct (dimensions x =? 1); cbn [lift] in *; [|discriminate].
    inversion Hv. unfold theta_w_unchecked. rewrite theta_generic_scale. reflexivity.
Qed.
