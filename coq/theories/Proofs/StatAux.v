(* Helper lemmas for StatDefP (property C06): the injection qnat, the `polymorphic` slice,
   first/last cell of the index space, frequencies, entries. *)
From Sfs Require Import Index ArrayM Scalar Spectrum Project Stat IndexP ArrayP BinomP MargP QsumP.
From Coq Require Import Lia.

Close Scope Qc_scope. Close Scope Q_scope. Open Scope nat_scope.

(* ---------------------------------------------------------------- qnat *)
Lemma qnat_qN n : qnat n = qN (N.of_nat n).
Proof. unfold qnat, qN. rewrite nat_N_Z. reflexivity. Qed.
Lemma qnat_0 : qnat 0 = 0%Qc.
Proof. reflexivity. Qed.
Lemma qnat_1 : qnat 1 = 1%Qc.
Proof. reflexivity. Qed.
Lemma qnat_add a b : qnat (a + b) = (qnat a + qnat b)%Qc.
Proof. rewrite !qnat_qN, Nat2N.inj_add. apply qN_add. Qed.
Lemma qnat_mul a b : qnat (a * b) = (qnat a * qnat b)%Qc.
Proof. rewrite !qnat_qN, Nat2N.inj_mul. apply qN_mul. Qed.
Lemma qnat_S n : qnat (S n) = (qnat n + 1)%Qc.
Proof. replace (S n) with (n + 1) by lia. rewrite qnat_add, qnat_1. reflexivity. Qed.
Lemma qnat_neq0 n : 0 < n -> qnat n <> 0%Qc.
Proof. intros H. rewrite qnat_qN. apply qN_neq0. lia. Qed.
Lemma qnat_nonneg n : (0 <= qnat n)%Qc.
Proof. rewrite qnat_qN. apply qN_nonneg. Qed.
Lemma qnat_sub a b : b <= a -> qnat (a - b) = (qnat a - qnat b)%Qc.
Proof.
  intros H. replace a with ((a - b) + b) at 2 by lia. rewrite qnat_add. ring.
Qed.
Lemma qnat_inj a b : qnat a = qnat b -> a = b.
Proof.
  intros H. destruct (Nat.lt_trichotomy a b) as [L|[E|L]]; [|assumption|]; exfalso.
  - apply (qnat_neq0 (b - a)); [lia|]. rewrite qnat_sub by lia. rewrite H. ring.
  - apply (qnat_neq0 (a - b)); [lia|]. rewrite qnat_sub by lia. rewrite H. ring.
Qed.

Lemma Qcinv_0 : (/ 0)%Qc = 0%Qc.
Proof. apply Qc_is_canon. reflexivity. Qed.
Lemma Qcdiv_0_r a : (a / 0)%Qc = 0%Qc.
Proof. unfold Qcdiv. rewrite Qcinv_0. ring. Qed.
Lemma Qcdiv_0_l a : (0 / a)%Qc = 0%Qc.
Proof. unfold Qcdiv. ring. Qed.

Lemma qsum_const_one {A} (l : list A) : qsum (map (fun _ => 1%Qc) l) = qnat (length l).
Proof.
  induction l as [|x l IH]; cbn [map length]; [reflexivity|].
  rewrite qsum_cons, IH, qnat_S. ring.
Qed.

Lemma qsum_ind_filter {A} (p : A -> bool) (l : list A) :
  qsum (map (fun x => ind (p x)) l) = qnat (length (filter p l)).
Proof.
  induction l as [|x l IH]; cbn [map filter]; [reflexivity|].
  rewrite qsum_cons, IH. destruct (p x); cbn [ind length]; [rewrite qnat_S|]; ring.
Qed.

(* ---------------------------------------------------------------- lists *)
Lemma seq_split_ends E : 2 <= E -> seq 0 E = 0 :: seq 1 (E - 2) ++ [E - 1].
Proof.
  intros H. replace E with (1 + (E - 2) + 1) at 1 by lia.
  rewrite !seq_app. cbn [seq app Nat.add]. do 3 f_equal. lia.
Qed.

Lemma polymorphic_ends {A} (a b : A) m : polymorphic (a :: m ++ [b]) = m.
Proof.
  unfold polymorphic. cbn [length]. rewrite app_length. cbn [length].
  replace (S (length m + 1) - 1) with (S (length m)) by lia. cbn [firstn skipn].
  rewrite firstn_app, firstn_all, Nat.sub_diag. cbn [firstn]. apply app_nil_r.
Qed.

Lemma polymorphic_map {A B} (f : A -> B) l : polymorphic (map f l) = map f (polymorphic l).
Proof. unfold polymorphic. rewrite map_length, firstn_map, skipn_map. reflexivity. Qed.

Lemma map_nth_seq {A} (l : list A) d : map (fun i => nth i l d) (seq 0 (length l)) = l.
Proof.
  induction l as [|x l IH]; [reflexivity|]. cbn [length seq map nth]. f_equal.
  rewrite <- seq_shift, map_map. exact IH.
Qed.

Lemma polymorphic_nth {A} (l : list A) d : 2 <= length l ->
  polymorphic l = map (fun i => nth i l d) (seq 1 (length l - 2)).
Proof.
  intros H. transitivity (polymorphic (map (fun i => nth i l d) (seq 0 (length l)))).
  - now rewrite map_nth_seq.
  - rewrite polymorphic_map, seq_split_ends, polymorphic_ends by assumption. reflexivity.
Qed.

Lemma combine_map_l {A B} (f : A -> B) l : combine (map f l) l = map (fun a => (f a, a)) l.
Proof. induction l as [|x l IH]; [reflexivity|]. cbn [map combine]. now rewrite IH. Qed.

Lemma flat_map_single {A B} (f : A -> B) l : flat_map (fun x => [f x]) l = map f l.
Proof. induction l as [|x l IH]; [reflexivity|]. cbn [flat_map map app]. now rewrite IH. Qed.

(* ---------------------------------------------------------------- the index space *)
Lemma poly_indices sh : positive_shape sh -> 2 <= elements sh ->
  polymorphic (indices sh) = map (unflat sh) (seq 1 (elements sh - 2)).
Proof.
  intros Hp HE. rewrite indices_unflat, polymorphic_map by assumption.
  rewrite seq_split_ends, polymorphic_ends by assumption. reflexivity.
Qed.

Lemma index_from_flat_indices sh : positive_shape sh ->
  map (index_from_flat sh) (seq 0 (elements sh)) = indices sh.
Proof.
  intros Hp. rewrite indices_unflat by assumption. apply map_ext. intros i.
  now apply index_from_flat_unflat.
Qed.

Lemma indices_1d n : indices [n] = map (fun i => [i]) (seq 0 n).
Proof. cbn [indices map]. apply flat_map_single. Qed.

Lemma unflat_0_zeros sh : positive_shape sh -> forallb (Nat.eqb 0) (unflat sh 0) = true.
Proof.
  induction sh as [|n t IH]; intros Hp; [reflexivity|].
  apply positive_shape_cons in Hp. destruct Hp as [_ Hp]. cbn [unflat forallb].
  pose proof (elements_pos t Hp) as Hpos.
  rewrite Nat.div_0_l, Nat.mod_0_l by lia. cbn [Nat.eqb andb]. now apply IH.
Qed.

Lemma flat_zeros sh k : forallb (Nat.eqb 0) k = true -> flat sh k = 0.
Proof.
  revert k; induction sh as [|n t IH]; intros [|i r] H; try reflexivity.
  cbn [forallb] in H. apply andb_true_iff in H. destruct H as [H0 H].
  apply Nat.eqb_eq in H0. subst i. cbn [flat]. rewrite IH by assumption. lia.
Qed.

Lemma inb_max sh : positive_shape sh -> inb sh (map pred sh) = true.
Proof.
  induction sh as [|n t IH]; intros Hp; [reflexivity|].
  apply positive_shape_cons in Hp. destruct Hp as [Hn Hp]. cbn [map inb].
  rewrite IH by assumption. rewrite andb_true_r. apply Nat.ltb_lt. lia.
Qed.

Lemma flat_max sh : positive_shape sh -> flat sh (map pred sh) = elements sh - 1.
Proof.
  induction sh as [|n t IH]; intros Hp; [reflexivity|].
  apply positive_shape_cons in Hp. destruct Hp as [Hn Hp]. cbn [map flat elements].
  rewrite IH by assumption. pose proof (elements_pos t Hp) as Hpos.
  destruct n as [|n]; [lia|]. cbn [pred]. nia.
Qed.

Lemma all0_unflat sh i : positive_shape sh -> i < elements sh ->
  forallb (Nat.eqb 0) (unflat sh i) = (i =? 0).
Proof.
  intros Hp Hi. destruct (i =? 0) eqn:E.
  - apply Nat.eqb_eq in E. subst i. now apply unflat_0_zeros.
  - apply Nat.eqb_neq in E. destruct (forallb (Nat.eqb 0) (unflat sh i)) eqn:F; [|reflexivity].
    apply (flat_zeros sh) in F. rewrite flat_unflat in F by assumption. contradiction.
Qed.

Lemma max_unflat sh i : positive_shape sh -> i < elements sh ->
  list_eqb (unflat sh i) (map pred sh) = (i =? elements sh - 1).
Proof.
  intros Hp Hi. destruct (i =? elements sh - 1) eqn:E.
  - apply Nat.eqb_eq in E. subst i. apply list_eqb_eq.
    rewrite <- (flat_max sh Hp). apply unflat_flat. now apply inb_max.
  - apply Nat.eqb_neq in E. destruct (list_eqb (unflat sh i) (map pred sh)) eqn:F; [|reflexivity].
    apply list_eqb_eq in F. apply (f_equal (flat sh)) in F.
    rewrite flat_unflat, flat_max in F by assumption. contradiction.
Qed.

(* ---------------------------------------------------------------- frequencies *)
Lemma fr_freqs k : forall sh j, fr (freqs k sh) j = (qnat (nth j k 0%nat) / qnat (nth j sh 0%nat - 1)%nat)%Qc.
Proof.
  unfold fr. induction k as [|i k IH]; intros sh j.
  - cbn [freqs]. destruct j; cbn [nth]; rewrite qnat_0, Qcdiv_0_l; reflexivity.
  - destruct sh as [|n sh].
    + cbn [freqs]. replace (nth j [] 0 - 1) with 0 by (destruct j; reflexivity).
      rewrite qnat_0, Qcdiv_0_r. destruct j; reflexivity.
    + cbn [freqs]. destruct j as [|j]; cbn [nth]; [reflexivity|]. apply IH.
Qed.

(* ---------------------------------------------------------------- binomN n 2 *)
Lemma binomN_1_r n : binomN n 1 = N.of_nat n.
Proof.
  destruct n as [|n]; [reflexivity|].
  pose proof (binomN_absorb n 0) as H. rewrite binomN_0_r in H. lia.
Qed.

Lemma binomN_2_twice n : (2 * binomN n 2 = N.of_nat (n * (n - 1)))%N.
Proof.
  induction n as [|n IH]; [reflexivity|].
  rewrite binomN_pascal, binomN_1_r, N.mul_add_distr_l, IH.
  replace (S n * (S n - 1)) with (2 * n + n * (n - 1))
    by (destruct n; [reflexivity|]; rewrite !Nat.sub_succ, !Nat.sub_0_r; nia).
  rewrite Nat2N.inj_add, (Nat2N.inj_mul 2 n). reflexivity.
Qed.

Lemma qN_binomN_2 n : qN (binomN n 2) = (qnat (n * (n - 1)) / qnat 2)%Qc.
Proof.
  rewrite (qnat_qN (n * (n - 1))), <- binomN_2_twice, qN_mul.
  change (qN 2) with (qnat 2). field. apply qnat_neq0. lia.
Qed.
