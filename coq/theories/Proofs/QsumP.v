(* Finite sums and products over Qc lists (helper for ProjectP). *)
From Sfs Require Import Index Scalar IndexP.
From Coq Require Import Lia.

Close Scope Qc_scope. Close Scope Q_scope. Open Scope nat_scope.

Lemma fold_left_qplus l c : fold_left Qcplus l c = (c + fold_left Qcplus l 0%Qc)%Qc.
Proof.
  revert c; induction l as [|a l IH]; intros c; cbn [fold_left]; [ring|].
  rewrite (IH (c + a)%Qc), (IH (0 + a)%Qc). ring.
Qed.

Lemma qsum_nil : qsum [] = 0%Qc.
Proof. reflexivity. Qed.

Lemma qsum_cons a l : qsum (a :: l) = (a + qsum l)%Qc.
Proof. unfold qsum. cbn [fold_left]. rewrite fold_left_qplus. ring. Qed.

Lemma qsum_fr l : qsum l = fold_right Qcplus 0%Qc l.
Proof. induction l as [|a l IH]; [reflexivity|]. rewrite qsum_cons, IH. reflexivity. Qed.

Lemma qsum_fold_right l : qsum l = fold_right Qcplus 0%Qc l.
Proof. apply qsum_fr. Qed.

Lemma qsum_app a b : qsum (a ++ b) = (qsum a + qsum b)%Qc.
Proof.
  induction a as [|x a IH]; cbn [app]; [rewrite qsum_nil; ring|].
  rewrite !qsum_cons, IH. ring.
Qed.

Lemma qsum_map_add {A} (f g : A -> Qc) l :
  qsum (map (fun x => (f x + g x)%Qc) l) = (qsum (map f l) + qsum (map g l))%Qc.
Proof.
  induction l as [|x l IH]; cbn [map]; [rewrite qsum_nil; ring|].
  rewrite !qsum_cons, IH. ring.
Qed.

Lemma qsum_map_scale {A} c (f : A -> Qc) l :
  qsum (map (fun x => (c * f x)%Qc) l) = (c * qsum (map f l))%Qc.
Proof.
  induction l as [|x l IH]; cbn [map]; [rewrite qsum_nil; ring|].
  rewrite !qsum_cons, IH. ring.
Qed.

Lemma qsum_scal_l {A} c (f : A -> Qc) l :
  qsum (map (fun x => (c * f x)%Qc) l) = (c * qsum (map f l))%Qc.
Proof. apply qsum_map_scale. Qed.

Lemma qsum_map_scale_r {A} c (f : A -> Qc) l :
  qsum (map (fun x => (f x * c)%Qc) l) = (qsum (map f l) * c)%Qc.
Proof.
  induction l as [|x l IH]; cbn [map]; [rewrite qsum_nil; ring|].
  rewrite !qsum_cons, IH. ring.
Qed.

Lemma qsum_map_ext {A} (f g : A -> Qc) l :
  (forall x, In x l -> f x = g x) -> qsum (map f l) = qsum (map g l).
Proof. intros H. f_equal. now apply map_ext_in. Qed.

Lemma qsum_map_zero {A} (f : A -> Qc) l :
  (forall x, In x l -> f x = 0%Qc) -> qsum (map f l) = 0%Qc.
Proof.
  induction l as [|x l IH]; intros H; cbn [map]; [reflexivity|].
  rewrite qsum_cons, H, IH by (try (left; reflexivity); intros y Hy; apply H; now right). ring.
Qed.

Lemma qsum_exchange {A B} (f : A -> B -> Qc) la lb :
  qsum (map (fun a => qsum (map (fun b => f a b) lb)) la) =
  qsum (map (fun b => qsum (map (fun a => f a b) la)) lb).
Proof.
  induction la as [|a la IH]; cbn [map].
  - rewrite qsum_nil. symmetry. apply qsum_map_zero. intros; reflexivity.
  - rewrite qsum_cons, IH.
    rewrite <- qsum_map_add. apply qsum_map_ext. intros b _. now rewrite qsum_cons.
Qed.

Lemma qsum_swap {A B} (f : A -> B -> Qc) la lb :
  qsum (map (fun a => qsum (map (fun b => f a b) lb)) la) =
  qsum (map (fun b => qsum (map (fun a => f a b) la)) lb).
Proof. apply qsum_exchange. Qed.

Lemma qsum_flat_map {A B} (f : B -> Qc) (g : A -> list B) l :
  qsum (map f (flat_map g l)) = qsum (map (fun x => qsum (map f (g x))) l).
Proof.
  induction l as [|x l IH]; cbn [flat_map map]; [reflexivity|].
  rewrite map_app, qsum_app, qsum_cons, IH. reflexivity.
Qed.

Lemma qsum_nonneg l : Forall (fun v => (0 <= v)%Qc) l -> (0 <= qsum l)%Qc.
Proof.
  induction 1 as [|a l Ha _ IH]; [rewrite qsum_nil; apply Qcle_refl|].
  rewrite qsum_cons. replace 0%Qc with (0 + 0)%Qc by ring. now apply Qcplus_le_compat.
Qed.

(* a sum with an indicator picks one term *)
Lemma qsum_delta {A} (eqb : A -> A -> bool) (f : A -> Qc) l k :
  (forall x, In x l -> (eqb x k = true <-> x = k)) -> NoDup l -> In k l ->
  qsum (map (fun x => if eqb x k then f x else 0%Qc) l) = f k.
Proof.
  intros Heq. induction l as [|a l IH]; intros Hnd Hin; [destruct Hin|].
  inversion Hnd as [|? ? Hna Hnd']; subst. cbn [map]. rewrite qsum_cons.
  destruct Hin as [->|Hin].
  - assert (E : eqb k k = true) by (apply Heq; [now left|reflexivity]). rewrite E.
    rewrite qsum_map_zero; [ring|]. intros x Hx.
    destruct (eqb x k) eqn:E'; [|reflexivity].
    apply Heq in E'; [|now right]. subst. contradiction.
  - destruct (eqb a k) eqn:E.
    + apply Heq in E; [|now left]. subst. contradiction.
    + rewrite IH; [ring| |assumption|assumption]. intros x Hx. apply Heq. now right.
Qed.

(* products *)
Lemma fold_left_qmult l c : fold_left Qcmult l c = (c * fold_left Qcmult l 1%Qc)%Qc.
Proof.
  revert c; induction l as [|a l IH]; intros c; cbn [fold_left]; [ring|].
  rewrite (IH (c * a)%Qc), (IH (1 * a)%Qc). ring.
Qed.

Lemma qprod_nil : qprod [] = 1%Qc.
Proof. reflexivity. Qed.

Lemma qprod_cons a l : qprod (a :: l) = (a * qprod l)%Qc.
Proof. unfold qprod. cbn [fold_left]. rewrite fold_left_qmult. ring. Qed.

Lemma qprod_nonneg l : Forall (fun v => (0 <= v)%Qc) l -> (0 <= qprod l)%Qc.
Proof.
  induction 1 as [|a l Ha _ IH]; [rewrite qprod_nil; discriminate|].
  rewrite qprod_cons. replace 0%Qc with (0 * qprod l)%Qc by ring. now apply Qcmult_le_compat_r.
Qed.

(* sums over an index space *)
Lemma qsum_indices_cons (f : list nat -> Qc) n t :
  qsum (map f (indices (n :: t))) =
  qsum (map (fun i => qsum (map (fun r => f (i :: r)) (indices t))) (seq 0 n)).
Proof.
  cbn [indices]. rewrite qsum_flat_map. apply qsum_map_ext. intros i _. now rewrite map_map.
Qed.

(* Fubini over one axis *)
Lemma qsum_indices_axis (f : list nat -> Qc) a sh :
  a < length sh ->
  qsum (map f (indices sh)) =
  qsum (map (fun idx' => qsum (map (fun i => f (insert_axis a i idx')) (seq 0 (nth a sh 0))))
            (indices (remove_axis a sh))).
Proof.
  revert f a; induction sh as [|n t IH]; intros f a Ha; cbn [length] in Ha; [lia|].
  destruct a as [|a].
  - rewrite remove_axis_0. cbn [nth]. rewrite qsum_indices_cons, qsum_exchange.
    apply qsum_map_ext. intros r _. apply qsum_map_ext. intros i _. now rewrite insert_axis_0.
  - rewrite remove_axis_cons. cbn [nth]. rewrite !qsum_indices_cons.
    apply qsum_map_ext. intros i _.
    rewrite (IH (fun r => f (i :: r)) a) by lia.
    apply qsum_map_ext. intros r _. apply qsum_map_ext. intros j _. now rewrite insert_axis_cons.
Qed.
