(* Proofs for C09 (population axes), C01 (create = histogram of complete sites) and
   C02 (create --project). Statements are FIXED; replace every Admitted by a proof. If a statement
   is FALSE as written, do not change it silently: prove the others, and report the counterexample.
   CreateP.v / ProjectP.v / BinomP.v in your copy contain statements still Admitted: expected (other
   workers prove them); use them freely, do not prove them here. *)
From Sfs Require Import Index ArrayM Scalar Spectrum Project Create IndexP ArrayP BinomP ProjectP CreateP.
From Coq Require Import Lia Permutation.

Close Scope Qc_scope. Close Scope Q_scope. Open Scope nat_scope.

Lemma list_eqb_eq a b : list_eqb a b = true <-> a = b.
Proof.
  revert b; induction a as [|x a IH]; intros [|y b]; cbn [list_eqb]; split; intros H;
    try discriminate; try reflexivity.
  - apply andb_prop in H as [H1 H2]. apply Nat.eqb_eq in H1. apply IH in H2. congruence.
  - inversion H; subst. rewrite Nat.eqb_refl. cbn [andb]. now apply IH.
Qed.
Lemma pop_eqb_eq p q : pop_eqb p q = true <-> p = q.
Proof.
  destruct p as [a|], q as [b|]; cbn [pop_eqb]; unfold name_eqb; try rewrite list_eqb_eq;
    split; intros H; try discriminate; try reflexivity; congruence.
Qed.

(* ------------------------------------------------------------------ generic helpers *)
Lemma cs_name_eqb_eq a b : name_eqb a b = true <-> a = b.
Proof. apply list_eqb_eq. Qed.
Lemma cs_name_eqb_refl a : name_eqb a a = true.
Proof. now apply cs_name_eqb_eq. Qed.
Lemma cs_name_eqb_neq a b : a <> b -> name_eqb a b = false.
Proof. intros H. destruct (name_eqb a b) eqn:E; [apply cs_name_eqb_eq in E; contradiction|reflexivity]. Qed.
Lemma cs_pop_eqb_refl p : pop_eqb p p = true.
Proof. now apply pop_eqb_eq. Qed.
Lemma cs_pop_eqb_neq a b : a <> b -> pop_eqb a b = false.
Proof. intros H. destruct (pop_eqb a b) eqn:E; [apply pop_eqb_eq in E; contradiction|reflexivity]. Qed.

Lemma cs_existsb_pop p acc : existsb (pop_eqb p) acc = true <-> In p acc.
Proof.
  rewrite existsb_exists. split.
  - intros [x [Hx He]]. apply pop_eqb_eq in He. now subst.
  - intros H. exists p. split; [assumption|apply cs_pop_eqb_refl].
Qed.
Lemma cs_existsb_pop_false p acc : existsb (pop_eqb p) acc = false <-> ~ In p acc.
Proof.
  rewrite <- cs_existsb_pop. destruct (existsb (pop_eqb p) acc); split; intros H; congruence.
Qed.
Lemma cs_existsb_name s cols : existsb (name_eqb s) cols = true <-> In s cols.
Proof.
  rewrite existsb_exists. split.
  - intros [x [Hx He]]. apply cs_name_eqb_eq in He. now subst.
  - intros H. exists s. split; [assumption|apply cs_name_eqb_refl].
Qed.

Lemma cs_NoDup_snoc {A} (l : list A) a : NoDup l -> ~ In a l -> NoDup (l ++ [a]).
Proof.
  intros Hn Hi. apply (Permutation_NoDup (l := a :: l)); [apply Permutation_cons_append|].
  now constructor.
Qed.

Lemma cs_filter_filter {A} (f g : A -> bool) l :
  filter f (filter g l) = filter (fun x => g x && f x) l.
Proof.
  induction l as [|x l IH]; [reflexivity|]. cbn [filter].
  destruct (g x); cbn [filter andb]; [destruct (f x)|]; now rewrite IH.
Qed.

(* index_of *)
Lemma cs_index_of_lt {A} (eqb : A -> A -> bool) x l i : index_of eqb x l = Some i -> i < length l.
Proof.
  revert i; induction l as [|y l IH]; intros i H; cbn [index_of] in H; [discriminate|].
  destruct (eqb x y).
  - inversion H; subst. cbn; lia.
  - destruct (index_of eqb x l) as [j|]; cbn in H; [|discriminate]. inversion H; subst.
    specialize (IH _ eq_refl). cbn; lia.
Qed.
Lemma cs_index_of_none p l : index_of pop_eqb p l = None <-> ~ In p l.
Proof.
  induction l as [|y l IH]; cbn [index_of In]; [tauto|].
  destruct (pop_eqb p y) eqn:E.
  - apply pop_eqb_eq in E. subst. split; [discriminate|intros H; exfalso; apply H; now left].
  - assert (y <> p) by (intros ->; rewrite cs_pop_eqb_refl in E; discriminate).
    assert (Hm : option_map S (index_of pop_eqb p l) = None <-> index_of pop_eqb p l = None)
      by (destruct (index_of pop_eqb p l); cbn; split; congruence).
    rewrite Hm, IH. tauto.
Qed.

Lemma cs_index_of_app_some p l l' i :
  index_of pop_eqb p l = Some i -> index_of pop_eqb p (l ++ l') = Some i.
Proof.
  revert i; induction l as [|y l IH]; intros i H; cbn [index_of app] in *; [discriminate|].
  destruct (pop_eqb p y); [assumption|].
  destruct (index_of pop_eqb p l) as [j|]; cbn [option_map] in *; [|discriminate].
  now rewrite (IH j eq_refl).
Qed.
Lemma cs_index_of_snoc_new p l : index_of pop_eqb p l = None -> index_of pop_eqb p (l ++ [p]) = Some (length l).
Proof.
  induction l as [|y l IH]; intros H; cbn [index_of app length] in *.
  - now rewrite cs_pop_eqb_refl.
  - destruct (pop_eqb p y); [discriminate|].
    destruct (index_of pop_eqb p l); cbn [option_map] in *; [discriminate|]. now rewrite IH.
Qed.
Lemma cs_index_of_nth l i d : NoDup l -> i < length l -> index_of pop_eqb (nth i l d) l = Some i.
Proof.
  revert i; induction l as [|y l IH]; intros i Hn Hi; cbn [length] in Hi; [lia|].
  inversion Hn as [|? ? Hy Hn']; subst. destruct i as [|i]; cbn [nth index_of].
  - now rewrite cs_pop_eqb_refl.
  - assert (Hin : In (nth i l d) l) by (apply nth_In; lia).
    rewrite cs_pop_eqb_neq by (intros E; rewrite E in Hin; contradiction).
    rewrite IH by (assumption || lia). reflexivity.
Qed.
Lemma cs_index_of_nth_eq p l i d : index_of pop_eqb p l = Some i -> nth i l d = p.
Proof.
  revert i; induction l as [|y l IH]; intros i H; cbn [index_of] in H; [discriminate|].
  destruct (pop_eqb p y) eqn:E.
  - inversion H; subst. apply pop_eqb_eq in E. now subst.
  - destruct (index_of pop_eqb p l) as [j|]; cbn [option_map] in H; [|discriminate].
    inversion H; subst. cbn [nth]. now apply IH.
Qed.
Lemma cs_index_of_in p l : In p l -> exists i, index_of pop_eqb p l = Some i.
Proof.
  intros H. destruct (index_of pop_eqb p l) as [i|] eqn:E; [now exists i|].
  apply cs_index_of_none in E. contradiction.
Qed.

Lemma cs_index_of_some_in p l i : index_of pop_eqb p l = Some i -> In p l.
Proof.
  intros H. rewrite <- (cs_index_of_nth_eq p l i p H). apply nth_In. eapply cs_index_of_lt; eassumption.
Qed.

Definition cs_idx (p : pop) (L : list pop) : nat :=
  match index_of pop_eqb p L with Some i => i | None => 0 end.

(* ------------------------------------------------------------------ C09 *)
(* the distinct labels in order of first appearance *)
Definition labels (l : list (name * pop)) : list pop :=
  fold_left (fun acc p => if existsb (pop_eqb p) acc then acc else acc ++ [p]) (map snd l) [].
Definition label_count (l : list (name * pop)) (p : pop) : nat :=
  length (filter (fun e => pop_eqb (snd e) p) l).

Definition cs_lab (acc : list pop) (ps : list pop) : list pop :=
  fold_left (fun acc p => if existsb (pop_eqb p) acc then acc else acc ++ [p]) ps acc.

Lemma cs_lab_spec ps acc :
  NoDup acc -> NoDup (cs_lab acc ps) /\ (forall p, In p (cs_lab acc ps) <-> In p acc \/ In p ps).
Proof.
  revert acc; induction ps as [|a ps IH]; intros acc Hn; cbn [cs_lab fold_left].
  - split; [assumption|]. intros p; cbn [In]; tauto.
  - fold (cs_lab (if existsb (pop_eqb a) acc then acc else acc ++ [a]) ps).
    destruct (existsb (pop_eqb a) acc) eqn:E.
    + apply cs_existsb_pop in E. destruct (IH acc Hn) as [H1 H2]. split; [assumption|].
      intros p. rewrite H2. cbn [In]. split; [tauto|]. intros [H|[H|H]]; subst; tauto.
    + apply cs_existsb_pop_false in E.
      destruct (IH (acc ++ [a]) (cs_NoDup_snoc _ _ Hn E)) as [H1 H2]. split; [assumption|].
      intros p. rewrite H2, in_app_iff. cbn [In]. tauto.
Qed.

Theorem labels_spec l : NoDup (labels l) /\ (forall p, In p (labels l) <-> In p (map snd l)).
Proof.
  destruct (cs_lab_spec (map snd l) [] (NoDup_nil _)) as [H1 H2]. split; [exact H1|].
  intros p. unfold labels. fold (cs_lab [] (map snd l)). rewrite H2. cbn [In]. tauto.
Qed.

Lemma cs_lab_acc ps acc :
  cs_lab acc ps = acc ++ filter (fun q => negb (existsb (pop_eqb q) acc)) (cs_lab [] ps).
Proof.
  revert acc; induction ps as [|a ps IH]; intros acc; cbn [cs_lab fold_left].
  - cbn [filter]. now rewrite app_nil_r.
  - fold (cs_lab (if existsb (pop_eqb a) acc then acc else acc ++ [a]) ps).
    cbn [existsb app]. fold (cs_lab [a] ps). rewrite (IH [a]). cbn [app filter].
    rewrite cs_filter_filter.
    destruct (existsb (pop_eqb a) acc) eqn:E; cbn [negb].
    + rewrite IH. f_equal. apply filter_ext_in. intros q Hq. cbn [existsb]. rewrite orb_false_r.
      destruct (pop_eqb q a) eqn:Eq; cbn [negb andb]; [|reflexivity].
      apply pop_eqb_eq in Eq. subst. now rewrite E.
    + rewrite IH, <- app_assoc. cbn [app]. f_equal. f_equal. apply filter_ext. intros q.
      rewrite existsb_app. cbn [existsb]. rewrite orb_false_r, negb_orb. apply andb_comm.
Qed.

Lemma cs_labels_snoc l e :
  labels (l ++ [e]) = if existsb (pop_eqb (snd e)) (labels l) then labels l else labels l ++ [snd e].
Proof. unfold labels. rewrite map_app, fold_left_app. reflexivity. Qed.

(* first appearance: p precedes q in labels iff p's first entry precedes q's first entry *)
Theorem labels_first_appearance l1 e l2 :
  ~ In (snd e) (map snd l1) -> labels (l1 ++ e :: l2) = labels l1 ++ snd e :: filter (fun q => negb (existsb (pop_eqb q) (labels l1 ++ [snd e]))) (labels l2).
Proof.
  intros Hnot. unfold labels at 1. rewrite map_app, fold_left_app. cbn [map fold_left].
  fold (labels l1).
  assert (E : existsb (pop_eqb (snd e)) (labels l1) = false).
  { apply cs_existsb_pop_false. intros H. apply Hnot. now apply labels_spec. }
  rewrite E. fold (cs_lab (labels l1 ++ [snd e]) (map snd l2)). rewrite cs_lab_acc.
  fold (labels l2). rewrite <- app_assoc. reflexivity.
Qed.

(* build_map as a fold of an explicit step *)
Definition cs_bm_step (st : list pop * smap) (e : name * pop) : list pop * smap :=
  let '(pops', id) := pops_get_or_insert (fst st) (snd e) in (pops', smap_insert (snd st) (fst e) id).

Lemma cs_build_map_fold l : build_map l = snd (fold_left cs_bm_step l ([], [])).
Proof.
  unfold build_map. f_equal. generalize (@nil pop, @nil (name * nat)).
  induction l as [|[s p] l IH]; intros [pops m]; [reflexivity|]. cbn [fold_left]. rewrite IH. reflexivity.
Qed.

Lemma cs_smap_insert_new m s v : ~ In s (map fst m) -> smap_insert m s v = m ++ [(s, v)].
Proof.
  induction m as [|[k w] m IH]; intros H; cbn [smap_insert app map fst In] in *; [reflexivity|].
  rewrite cs_name_eqb_neq by (intros ->; apply H; now left). rewrite IH by tauto. reflexivity.
Qed.

Lemma cs_idx_app p L L' : In p L -> cs_idx p (L ++ L') = cs_idx p L.
Proof.
  intros H. destruct (cs_index_of_in _ _ H) as [i Hi]. unfold cs_idx.
  now rewrite (cs_index_of_app_some _ _ L' _ Hi), Hi.
Qed.

Definition cs_bm (l : list (name * pop)) : smap := map (fun e => (fst e, cs_idx (snd e) (labels l))) l.

Lemma cs_bm_fold_spec l : NoDup (map fst l) -> fold_left cs_bm_step l ([], []) = (labels l, cs_bm l).
Proof.
  induction l as [|e l IH] using rev_ind; intros Hn; [reflexivity|].
  rewrite map_app in Hn. cbn [map] in Hn.
  assert (Hn' : NoDup (map fst l) /\ ~ In (fst e) (map fst l)).
  { apply (Permutation_NoDup (l' := fst e :: map fst l)) in Hn;
      [|apply Permutation_sym, Permutation_cons_append]. inversion Hn; subst; tauto. }
  destruct Hn' as [Hn' Hfresh]. rewrite fold_left_app, (IH Hn'). cbn [fold_left].
  unfold cs_bm_step, pops_get_or_insert. cbn [fst snd]. rewrite cs_labels_snoc.
  assert (Hkeys : map fst (cs_bm l) = map fst l).
  { unfold cs_bm. rewrite map_map. reflexivity. }
  destruct (index_of pop_eqb (snd e) (labels l)) as [i|] eqn:E;
    rewrite cs_smap_insert_new by (rewrite Hkeys; assumption).
  - assert (Hin : In (snd e) (labels l)).
    { eapply cs_index_of_some_in; eassumption. }
    apply cs_existsb_pop in Hin. rewrite Hin. f_equal. unfold cs_bm. rewrite map_app. cbn [map].
    rewrite cs_labels_snoc, Hin. unfold cs_idx at 3. now rewrite E.
  - pose proof E as E'. apply cs_index_of_none, cs_existsb_pop_false in E'. rewrite E'. f_equal.
    unfold cs_bm. rewrite map_app. cbn [map]. rewrite cs_labels_snoc, E'. f_equal.
    + apply map_ext_in. intros x Hx. f_equal. symmetry. apply cs_idx_app. apply labels_spec.
      now apply in_map.
    + unfold cs_idx. now rewrite (cs_index_of_snoc_new _ _ E).
Qed.

Lemma cs_build_map_eq l : NoDup (map fst l) -> build_map l = cs_bm l.
Proof. intros H. now rewrite cs_build_map_fold, cs_bm_fold_spec. Qed.


Theorem build_map_keys l : NoDup (map fst l) -> map fst (build_map l) = map fst l.
Proof. intros H. rewrite cs_build_map_eq by assumption. unfold cs_bm. rewrite map_map. reflexivity. Qed.

Lemma cs_smap_get_map (f : name * pop -> nat) l s p :
  NoDup (map fst l) -> In (s, p) l -> smap_get (map (fun e => (fst e, f e)) l) s = Some (f (s, p)).
Proof.
  induction l as [|e l IH]; intros Hn Hi; [destruct Hi|]. cbn [map fst] in Hn.
  inversion Hn as [|? ? Hfresh Hn']; subst. cbn [map smap_get]. destruct Hi as [->|Hi].
  - cbn [fst]. now rewrite cs_name_eqb_refl.
  - rewrite cs_name_eqb_neq; [now apply IH|]. intros ->. apply Hfresh.
    change (fst e) with (fst (fst e, p)). now apply in_map.
Qed.
(* population id of a listed sample = position of its label among the distinct labels *)
Theorem build_map_ids l s p :
  NoDup (map fst l) -> In (s, p) l -> smap_get (build_map l) s = index_of pop_eqb p (labels l).
Proof.
  intros Hn Hi. rewrite cs_build_map_eq by assumption. unfold cs_bm.
  rewrite (cs_smap_get_map (fun e => cs_idx (snd e) (labels l)) l s p Hn Hi). cbn [snd].
  assert (Hp : In p (labels l)) by (apply labels_spec; change p with (snd (s, p)); now apply in_map).
  destruct (cs_index_of_in _ _ Hp) as [i Hidx]. unfold cs_idx. now rewrite Hidx.
Qed.

Lemma cs_smap_insert_keys m s v k : In k (map fst (smap_insert m s v)) -> k = s \/ In k (map fst m).
Proof.
  induction m as [|[k' v'] m IH]; cbn [smap_insert map fst In].
  - intros [H|[]]; auto.
  - destruct (name_eqb s k'); cbn [map fst In]; intros [H|H]; auto. apply IH in H. tauto.
Qed.
Lemma cs_bm_fold_keys l st k :
  In k (map fst (snd (fold_left cs_bm_step l st))) -> In k (map fst (snd st)) \/ In k (map fst l).
Proof.
  revert st; induction l as [|e l IH]; intros st H; cbn [fold_left] in H; [now left|].
  apply IH in H. cbn [map In]. destruct H as [H|H]; [|tauto].
  unfold cs_bm_step in H. destruct (pops_get_or_insert (fst st) (snd e)) as [pops' id]. cbn [snd] in H.
  apply cs_smap_insert_keys in H. destruct H as [->|H]; tauto.
Qed.
Lemma cs_smap_get_none m s : ~ In s (map fst m) -> smap_get m s = None.
Proof.
  induction m as [|[k v] m IH]; intros H; cbn [smap_get map fst In] in *; [reflexivity|].
  rewrite cs_name_eqb_neq by (intros ->; apply H; now left). apply IH. tauto.
Qed.
Lemma cs_smap_get_some_in m s v : smap_get m s = Some v -> In (s, v) m.
Proof.
  induction m as [|[k w] m IH]; cbn [smap_get]; [discriminate|].
  destruct (name_eqb s k) eqn:E; intros H.
  - apply cs_name_eqb_eq in E. inversion H; subst. now left.
  - right. now apply IH.
Qed.
Theorem build_map_get_none l s : ~ In s (map fst l) -> smap_get (build_map l) s = None.
Proof.
  intros H. apply cs_smap_get_none. intros Hk. rewrite cs_build_map_fold in Hk.
  apply cs_bm_fold_keys in Hk. cbn [snd map] in Hk. destruct Hk as [[]|Hk]. contradiction.
Qed.

Lemma cs_existsb_nat v t : existsb (Nat.eqb v) t = true <-> In v t.
Proof.
  rewrite existsb_exists. split.
  - intros [x [Hx He]]. apply Nat.eqb_eq in He. now subst.
  - intros H. exists v. split; [assumption|apply Nat.eqb_refl].
Qed.
Lemma cs_distinct_spec vals : NoDup (distinct vals) /\ forall x, In x (distinct vals) <-> In x vals.
Proof.
  induction vals as [|v t [IH1 IH2]]; cbn [distinct]; [split; [constructor|tauto]|].
  destruct (existsb (Nat.eqb v) t) eqn:E.
  - apply cs_existsb_nat in E. split; [assumption|]. intros x. rewrite IH2. cbn [In].
    split; [tauto|]. intros [<-|H]; assumption.
  - split.
    + constructor; [|assumption]. rewrite IH2. intros H. apply cs_existsb_nat in H. congruence.
    + intros x. cbn [In]. rewrite IH2. tauto.
Qed.

Lemma cs_bm_vals l : map snd (cs_bm l) = map (fun e => cs_idx (snd e) (labels l)) l.
Proof. unfold cs_bm. rewrite map_map. reflexivity. Qed.

Lemma cs_bm_vals_in l x : In x (map snd (cs_bm l)) <-> x < length (labels l).
Proof.
  rewrite cs_bm_vals, in_map_iff. split.
  - intros [e [<- He]]. assert (Hp : In (snd e) (labels l)) by (apply labels_spec; now apply in_map).
    destruct (cs_index_of_in _ _ Hp) as [i Hi]. unfold cs_idx. rewrite Hi. eapply cs_index_of_lt; eassumption.
  - intros Hx. assert (Hp : In (nth x (labels l) None) (labels l)) by (now apply nth_In).
    apply labels_spec, in_map_iff in Hp. destruct Hp as [e [He Hin]]. exists e. split; [|assumption].
    unfold cs_idx. rewrite He, cs_index_of_nth; [reflexivity|apply labels_spec|assumption].
Qed.
Lemma cs_npop_bm l : number_of_populations (cs_bm l) = length (labels l).
Proof.
  unfold number_of_populations. rewrite <- (seq_length (length (labels l)) 0).
  apply Permutation_length, NoDup_Permutation; [apply cs_distinct_spec|apply seq_NoDup|].
  intros x. rewrite (proj2 (cs_distinct_spec _)), cs_bm_vals_in, in_seq. lia.
Qed.

Theorem number_of_populations_spec l : NoDup (map fst l) -> number_of_populations (build_map l) = length (labels l).
Proof. intros H. rewrite cs_build_map_eq by assumption. apply cs_npop_bm. Qed.

Lemma cs_shape_fold vals ids :
  (forall id, In id ids -> count_id id vals <> 0) ->
  fold_right (fun id acc =>
                match acc with
                | None => None
                | Some sh => if count_id id vals =? 0 then None else Some (1 + 2 * count_id id vals :: sh)
                end) (Some []) ids = Some (map (fun id => 1 + 2 * count_id id vals) ids).
Proof.
  induction ids as [|id ids IH]; intros H; [reflexivity|]. cbn [fold_right map].
  rewrite IH by (intros; apply H; now right).
  destruct (count_id id vals =? 0) eqn:E; [|reflexivity].
  apply Nat.eqb_eq in E. exfalso. apply (H id); [now left|assumption].
Qed.

Lemma cs_count_id_label l0 L id :
  NoDup L -> id < length L -> (forall e, In e l0 -> In (snd e) L) ->
  count_id id (map (fun e => cs_idx (snd e) L) l0) =
  length (filter (fun e : name * pop => pop_eqb (snd e) (nth id L None)) l0).
Proof.
  intros Hn Hid. induction l0 as [|e l0 IH]; intros Hin; [reflexivity|].
  cbn [map count_id filter]. rewrite IH by (intros; apply Hin; now right).
  assert (He : In (snd e) L) by (apply Hin; now left).
  destruct (cs_index_of_in _ _ He) as [j Hj]. unfold cs_idx at 1. rewrite Hj.
  destruct (pop_eqb (snd e) (nth id L None)) eqn:E.
  - apply pop_eqb_eq in E. rewrite E, cs_index_of_nth in Hj by assumption. inversion Hj; subst.
    rewrite Nat.eqb_refl. reflexivity.
  - destruct (j =? id) eqn:Ej; [|reflexivity]. apply Nat.eqb_eq in Ej. subst j.
    rewrite (cs_index_of_nth_eq _ _ _ None Hj), cs_pop_eqb_refl in E. discriminate.
Qed.

Lemma cs_filter_pos {A} (f : A -> bool) l e : In e l -> f e = true -> 0 < length (filter f l).
Proof.
  induction l as [|x l IH]; intros Hi Hf; [destruct Hi|]. cbn [filter]. destruct Hi as [->|Hi].
  - rewrite Hf. cbn; lia.
  - specialize (IH Hi Hf). destruct (f x); cbn [length]; lia.
Qed.

Lemma cs_map_nth_seq {A} (l : list A) d : l = map (fun i => nth i l d) (seq 0 (length l)).
Proof.
  induction l as [|x l IH]; [reflexivity|]. cbn [length seq map nth]. f_equal.
  rewrite <- seq_shift, map_map. exact IH.
Qed.

Lemma cs_count_bm l id : id < length (labels l) ->
  count_id id (map snd (cs_bm l)) = label_count l (nth id (labels l) None).
Proof.
  intros Hid. rewrite cs_bm_vals. unfold label_count. apply cs_count_id_label; [apply labels_spec|assumption|].
  intros e He. apply labels_spec. now apply in_map.
Qed.

Lemma cs_label_count_pos l p : In p (labels l) -> 0 < label_count l p.
Proof.
  intros H. apply labels_spec, in_map_iff in H. destruct H as [e [He Hin]]. unfold label_count.
  apply (cs_filter_pos _ l e Hin). rewrite He. apply cs_pop_eqb_refl.
Qed.

Lemma cs_map_shape_bm l :
  map_shape (cs_bm l) = Some (map (fun p => 1 + 2 * label_count l p) (labels l)).
Proof.
  unfold map_shape. rewrite cs_npop_bm, cs_shape_fold.
  - f_equal. rewrite (cs_map_nth_seq (labels l) None) at 2. rewrite map_map. apply map_ext_in.
    intros id Hid. apply in_seq in Hid. rewrite cs_count_bm by lia. reflexivity.
  - intros id Hid. apply in_seq in Hid. rewrite cs_count_bm by lia.
    pose proof (cs_label_count_pos l (nth id (labels l) None)) as Hp.
    assert (In (nth id (labels l) None) (labels l)) by (apply nth_In; lia). specialize (Hp H). lia.
Qed.
(* axis j = j-th distinct label, length 2 * (listed samples with that label) + 1 *)
Theorem map_shape_spec l :
  NoDup (map fst l) -> map_shape (build_map l) = Some (map (fun p => 1 + 2 * label_count l p) (labels l)).
Proof. intros H. rewrite cs_build_map_eq by assumption. apply cs_map_shape_bm. Qed.

Lemma cs_labels_all_none cols : cols <> [] -> labels (map (fun c : name => (c, @None name)) cols) = [None].
Proof.
  destruct cols as [|c cols]; [congruence|]. intros _. unfold labels. cbn [map snd fold_left existsb app].
  induction cols as [|c' cols IH]; [reflexivity|]. cbn [map snd fold_left existsb pop_eqb orb]. exact IH.
Qed.
Lemma cs_label_count_all_none cols : label_count (map (fun c : name => (c, @None name)) cols) None = length cols.
Proof.
  unfold label_count. induction cols as [|c cols IH]; [reflexivity|].
  cbn [map filter snd pop_eqb length]. now rewrite IH.
Qed.
(* samples without a label form one unnamed population *)
Theorem from_all_one_population cols : NoDup cols -> cols <> [] ->
  map_shape (map_from_all cols) = Some [1 + 2 * length cols] /\
  forall c, In c cols -> smap_get (map_from_all cols) c = Some 0.
Proof.
  intros Hn Hne. unfold map_from_all.
  pose proof (cs_labels_all_none cols Hne) as Hl. pose proof (cs_label_count_all_none cols) as Hc.
  assert (Hin : forall c, In c cols -> In (c, @None name) (map (fun c : name => (c, @None name)) cols)).
  { intros c Hc'. now apply (in_map (fun c : name => (c, @None name))). }
  assert (Hk : NoDup (map fst (map (fun c : name => (c, @None name)) cols))).
  { rewrite map_map. cbn [fst]. now rewrite map_id. }
  revert Hl Hc Hin Hk. generalize (map (fun c : name => (c, @None name)) cols). intros l0 Hl Hc Hin Hk.
  split.
  - rewrite (map_shape_spec l0 Hk), Hl. cbn [map]. now rewrite Hc.
  - intros c Hc'. rewrite (build_map_ids l0 c None Hk (Hin c Hc')), Hl. reflexivity.
Qed.

Lemma cs_filter_length_perm {A} (f : A -> bool) l l' :
  Permutation l l' -> length (filter f l) = length (filter f l').
Proof.
  induction 1 as [|x l l' _ IH|x y l|l l' l'' _ IH1 _ IH2]; cbn [filter]; try reflexivity.
  - destruct (f x); cbn [length]; now rewrite IH.
  - destruct (f x), (f y); reflexivity.
  - congruence.
Qed.

(* reordering list entries while keeping the first-appearance order of labels changes nothing
   that read_site can see *)
Theorem build_map_reorder l l' :
  NoDup (map fst l) -> Permutation l l' -> labels l = labels l' ->
  (forall s, smap_get (build_map l) s = smap_get (build_map l') s) /\
  map_shape (build_map l) = map_shape (build_map l').
Proof.
  intros Hn Hp Hl.
  assert (Hn' : NoDup (map fst l')).
  { eapply Permutation_NoDup; [|exact Hn]. now apply Permutation_map. }
  split.
  - intros s. destruct (in_dec (list_eq_dec Nat.eq_dec) s (map fst l)) as [Hi|Hi].
    + apply in_map_iff in Hi. destruct Hi as [[s' p] [Hs Hi]]. cbn [fst] in Hs. subst s'.
      rewrite (build_map_ids l s p Hn Hi).
      rewrite (build_map_ids l' s p Hn' (Permutation_in _ Hp Hi)). now rewrite Hl.
    + rewrite (build_map_get_none l s Hi). symmetry. apply build_map_get_none.
      intros Hi'. apply Hi. eapply Permutation_in; [|exact Hi']. apply Permutation_sym. now apply Permutation_map.
  - rewrite !map_shape_spec by assumption. rewrite Hl. f_equal. apply map_ext. intros q.
    unfold label_count. now rewrite (cs_filter_length_perm _ l l' Hp).
Qed.

(* ---- site_steps over the list of (column, genotype) pairs, up to what read_site observes *)
Lemma cs_add_nth_nil i v : add_nth [] i v = [].
Proof. reflexivity. Qed.
Lemma cs_add_nth_0 x l v : add_nth (x :: l) 0 v = (x + v) :: l.
Proof. reflexivity. Qed.
Lemma cs_add_nth_S x l i v : add_nth (x :: l) (S i) v = x :: add_nth l i v.
Proof. reflexivity. Qed.
Lemma cs_add_nth_comm l i a j b : add_nth (add_nth l i a) j b = add_nth (add_nth l j b) i a.
Proof.
  revert i j; induction l as [|x l IH]; intros i j; [reflexivity|].
  destruct i as [|i], j as [|j]; rewrite ?cs_add_nth_0, ?cs_add_nth_S, ?cs_add_nth_0; try reflexivity.
  - f_equal. lia.
  - f_equal. apply IH.
Qed.

Fixpoint cs_steps (m : smap) (st : sstate) (ps : list (name * gres)) : option sstate :=
  match ps with
  | [] => Some st
  | p :: ps' => match site_step m st (fst p) (snd p) with
                | Some st' => cs_steps m st' ps'
                | None => None
                end
  end.
Lemma cs_site_steps_pairs m st cols gs : site_steps m st cols gs = cs_steps m st (combine cols gs).
Proof.
  revert st gs; induction cols as [|c cols IH]; intros st [|g gs]; try reflexivity.
  cbn [site_steps combine cs_steps fst snd]. destruct (site_step m st c g); [apply IH|reflexivity].
Qed.

Definition cs_seq (a b : sstate) : Prop :=
  s_counts a = s_counts b /\ s_totals a = s_totals b /\ s_tobuf a = s_tobuf b /\
  (s_skipped a = [] <-> s_skipped b = []).
Definition cs_oseq (a b : option sstate) : Prop :=
  match a, b with Some x, Some y => cs_seq x y | None, None => True | _, _ => False end.

Lemma cs_seq_refl a : cs_seq a a.
Proof. unfold cs_seq; tauto. Qed.
Lemma cs_oseq_refl a : cs_oseq a a.
Proof. destruct a; cbn; [apply cs_seq_refl|exact I]. Qed.
Lemma cs_oseq_trans a b c : cs_oseq a b -> cs_oseq b c -> cs_oseq a c.
Proof.
  destruct a, b, c; cbn; try tauto. unfold cs_seq.
  intros (H1 & H2 & H3 & H4) (H5 & H6 & H7 & H8). repeat split; try congruence; tauto.
Qed.

Lemma cs_snoc_not_nil {A} (l : list A) x : l ++ [x] = [] <-> False.
Proof. split; [|tauto]. intros H. apply app_eq_nil in H as [_ H]. discriminate. Qed.

Lemma cs_step_respects m a b c g : cs_seq a b -> cs_oseq (site_step m a c g) (site_step m b c g).
Proof.
  intros (H1 & H2 & H3 & H4). unfold site_step. destruct (smap_get m c) as [pid|]; [|cbn; unfold cs_seq; tauto].
  destruct g; cbn [cs_oseq]; unfold cs_seq; cbn [s_counts s_totals s_skipped s_tobuf];
    rewrite ?cs_snoc_not_nil; try tauto.
  rewrite H1, H2. tauto.
Qed.
Lemma cs_steps_respects m ps a b : cs_seq a b -> cs_oseq (cs_steps m a ps) (cs_steps m b ps).
Proof.
  revert a b; induction ps as [|p ps IH]; intros a b H; cbn [cs_steps]; [exact H|].
  pose proof (cs_step_respects m a b (fst p) (snd p) H) as Hs.
  destruct (site_step m a (fst p) (snd p)), (site_step m b (fst p) (snd p)); cbn [cs_oseq] in Hs; try tauto.
  now apply IH.
Qed.
Lemma cs_steps_swap m st x y ps : cs_oseq (cs_steps m st (x :: y :: ps)) (cs_steps m st (y :: x :: ps)).
Proof.
  assert (H2 : cs_oseq (cs_steps m st [x; y]) (cs_steps m st [y; x])).
  { cbn [cs_steps]. destruct x as [cx gx], y as [cy gy]. cbn [fst snd]. unfold site_step.
    destruct (smap_get m cx) as [px|], (smap_get m cy) as [py|]; destruct gx, gy;
      cbn [cs_oseq]; unfold cs_seq; cbn [s_counts s_totals s_skipped s_tobuf];
      rewrite ?cs_snoc_not_nil; try tauto.
    repeat split; try tauto; apply cs_add_nth_comm. }
  cbn [cs_steps] in *.
  destruct (site_step m st (fst x) (snd x)) as [s1|]; [destruct (site_step m s1 (fst y) (snd y)) as [s2|]|];
    (destruct (site_step m st (fst y) (snd y)) as [t1|]; [destruct (site_step m t1 (fst x) (snd x)) as [t2|]|]);
    cbn [cs_oseq] in *; try tauto.
  now apply cs_steps_respects.
Qed.
Lemma cs_steps_perm m ps ps' : Permutation ps ps' -> forall st, cs_oseq (cs_steps m st ps) (cs_steps m st ps').
Proof.
  induction 1 as [|x l l' _ IH|x y l|l l' l'' _ IH1 _ IH2]; intros st.
  - apply cs_oseq_refl.
  - cbn [cs_steps]. destruct (site_step m st (fst x) (snd x)); [apply IH|exact I].
  - apply cs_steps_swap.
  - eapply cs_oseq_trans; [apply IH1|apply IH2].
Qed.

Lemma cs_read_site_oseq m cols cols' pto st gs gs' :
  cs_oseq (site_steps m (reset st) cols gs) (site_steps m (reset st) cols' gs') ->
  snd (read_site m cols pto st gs) = snd (read_site m cols' pto st gs').
Proof.
  intros H. unfold read_site.
  destruct (site_steps m (reset st) cols gs) as [x|], (site_steps m (reset st) cols' gs') as [y|];
    cbn [cs_oseq] in H; try tauto.
  destruct H as (H1 & H2 & H3 & H4). rewrite <- H1, <- H2, <- H3. destruct pto as [to|].
  - destruct (all2 Nat.eqb (s_totals x) to); [reflexivity|].
    destruct (all2 (fun total t => t <=? total) (s_totals x) to); reflexivity.
  - destruct (s_skipped x), (s_skipped y); try reflexivity.
    + destruct H4 as [H4 _]. specialize (H4 eq_refl). discriminate.
    + destruct H4 as [_ H4]. specialize (H4 eq_refl). discriminate.
Qed.

(* reordering the sample columns of the input changes nothing *)
Theorem read_site_column_perm m cols cols' pto st gs gs' :
  length cols = length gs -> length cols' = length gs' -> NoDup cols ->
  Permutation (combine cols gs) (combine cols' gs') ->
  snd (read_site m cols pto st gs) = snd (read_site m cols' pto st gs').
Proof.
  intros _ _ _ Hp. apply cs_read_site_oseq. rewrite !cs_site_steps_pairs. now apply cs_steps_perm.
Qed.

(* builder errors: empty list, listed sample absent from the input *)
Theorem build_reader_empty cols p : build_reader cols (SamplesList []) p = inr EEmptySamplesMap.
Proof. reflexivity. Qed.
Theorem build_reader_unknown cols l p s :
  NoDup (map fst l) -> In s (map fst l) -> ~ In s cols ->
  exists s', build_reader cols (SamplesList l) p = inr (EUnknownSample s') /\ In s' (map fst l) /\ ~ In s' cols.
Proof.
  intros Hn Hs Hc. pose proof (build_map_keys l Hn) as Hk. unfold build_reader.
  destruct (build_map l) as [|e0 m0] eqn:Em.
  - cbn [map] in Hk. rewrite <- Hk in Hs. destruct Hs.
  - pose proof (map_shape_spec l Hn) as Hms. rewrite Em in Hms. rewrite Hms. rewrite Hk.
    destruct (find (fun s0 => negb (existsb (name_eqb s0) cols)) (map fst l)) as [s'|] eqn:Ef.
    + apply find_some in Ef. destruct Ef as [Hin Hpred]. exists s'. split; [reflexivity|]. split; [assumption|].
      intros Hc'. apply cs_existsb_name in Hc'. rewrite Hc' in Hpred. discriminate.
    + exfalso. pose proof (find_none _ _ Ef s Hs) as Hf. cbn beta in Hf.
      apply negb_false_iff, cs_existsb_name in Hf. contradiction.
Qed.
(* --project-individuals i = --project-shape 2i+1 *)
Theorem build_reader_individuals cols samples l :
  build_reader cols samples (Some (ProjIndividuals l)) = build_reader cols samples (Some (ProjShape (map (fun i => 2 * i + 1) l))).
Proof. reflexivity. Qed.

(* ------------------------------------------------------------------ helpers for C01 / C02 *)
Lemma cs_set_nth_length {A} (l : list A) n v : length (set_nth l n v) = length l.
Proof. revert n; induction l as [|x l IH]; intros [|n]; cbn [set_nth length]; auto. Qed.
Lemma cs_nth_set_nth {A} (l : list A) n v i d :
  nth i (set_nth l n v) d = if (i =? n) && (n <? length l) then v else nth i l d.
Proof.
  revert n i; induction l as [|x l IH]; intros n i.
  - cbn [set_nth length]. destruct n; cbn; rewrite andb_false_r; reflexivity.
  - destruct n as [|n], i as [|i]; cbn [set_nth nth length]; try reflexivity.
    rewrite IH. cbn [Nat.eqb]. replace (S n <? S (length l)) with (n <? length l); [reflexivity|].
    destruct (n <? length l) eqn:E; symmetry; [apply Nat.ltb_lt in E; apply Nat.ltb_lt; lia|
      apply Nat.ltb_ge in E; apply Nat.ltb_ge; lia].
Qed.
Lemma cs_add_nth_length l i v : length (add_nth l i v) = length l.
Proof. apply cs_set_nth_length. Qed.

Lemma cs_Forall2_add_nth c t i a b : Forall2 le c t -> a <= b -> Forall2 le (add_nth c i a) (add_nth t i b).
Proof.
  intros H Hab. revert i; induction H as [|x y c t Hxy H IH]; intros i; [constructor|].
  destruct i as [|i]; rewrite ?cs_add_nth_0, ?cs_add_nth_S; constructor; auto; lia.
Qed.
Lemma cs_Forall2_le_repeat d : Forall2 le (repeat 0 d) (repeat 0 d).
Proof. induction d; cbn [repeat]; constructor; auto. Qed.
Lemma cs_Forall2_le_nth c t j : Forall2 le c t -> nth j c 0 <= nth j t 0.
Proof.
  intros H; revert j; induction H as [|x y c t Hxy H IH]; intros [|j]; cbn [nth]; auto.
Qed.
Lemma cs_Forall2_length {A B} (R : A -> B -> Prop) a b : Forall2 R a b -> length a = length b.
Proof. induction 1; cbn [length]; congruence. Qed.

Lemma cs_map_const_repeat {A} (l : list A) : map (fun _ => 0) l = repeat 0 (length l).
Proof. induction l as [|x l IH]; cbn [map length repeat]; congruence. Qed.
Lemma cs_rev_repeat {A} (x : A) n : rev (repeat x n) = repeat x n.
Proof. induction n as [|n IH]; [reflexivity|]. cbn [repeat rev]. rewrite IH. symmetry. apply repeat_cons. Qed.

Lemma cs_forallb_ext {A} (f g : A -> bool) l : (forall x, f x = g x) -> forallb f l = forallb g l.
Proof. intros H; induction l as [|x l IH]; cbn [forallb]; congruence. Qed.

Lemma cs_inb_of_nth sh idx :
  length idx = length sh -> (forall j, j < length sh -> nth j idx 0 < nth j sh 0) -> inb sh idx = true.
Proof.
  revert idx; induction sh as [|n t IH]; intros [|i r] Hl H; cbn [length] in Hl; try discriminate; [reflexivity|].
  cbn [inb]. apply andb_true_intro. split.
  - apply Nat.ltb_lt. apply (H 0). cbn; lia.
  - apply IH; [lia|]. intros j Hj. apply (H (S j)). cbn; lia.
Qed.
Lemma cs_inb_S c to : Forall2 le c to -> inb (map S to) c = true.
Proof.
  induction 1 as [|x y c t Hxy H IH]; [reflexivity|]. cbn [map inb]. rewrite IH, andb_true_r.
  apply Nat.ltb_lt. lia.
Qed.
Lemma cs_flat_inj sh k k' : inb sh k = true -> inb sh k' = true -> flat sh k = flat sh k' -> k = k'.
Proof.
  intros H1 H2 H. rewrite <- (unflat_flat sh k H1), <- (unflat_flat sh k' H2). now rewrite H.
Qed.
Lemma cs_positive_map_S to : positive_shape (map S to).
Proof. unfold positive_shape. apply Forall_forall. intros x Hx. apply in_map_iff in Hx as [y [<- _]]. lia. Qed.

Lemma cs_all2_eqb_eq a b : length a = length b -> all2 Nat.eqb a b = true -> a = b.
Proof.
  revert b; induction a as [|x a IH]; intros [|y b] Hl H; cbn [length] in Hl; try discriminate; [reflexivity|].
  cbn [all2] in H. apply andb_prop in H as [H1 H2]. apply Nat.eqb_eq in H1. f_equal; [assumption|].
  apply IH; [lia|assumption].
Qed.
Lemma cs_all2_le_refl a : all2 (fun total t => t <=? total) a a = true.
Proof. induction a as [|x a IH]; [reflexivity|]. cbn [all2]. rewrite IH, Nat.leb_refl. reflexivity. Qed.

(* Qc sums and products *)
Lemma cs_fold_plus l a : fold_left Qcplus l a = (a + fold_left Qcplus l 0)%Qc.
Proof.
  revert a; induction l as [|y l IH]; intros a; cbn [fold_left]; [ring|].
  rewrite IH, (IH (0 + y)%Qc). ring.
Qed.
Lemma cs_qsum_cons x l : qsum (x :: l) = (x + qsum l)%Qc.
Proof. unfold qsum. cbn [fold_left]. rewrite cs_fold_plus. ring. Qed.
Lemma cs_fold_mult l a : fold_left Qcmult l a = (a * fold_left Qcmult l 1)%Qc.
Proof.
  revert a; induction l as [|y l IH]; intros a; cbn [fold_left]; [ring|].
  rewrite IH, (IH (1 * y)%Qc). ring.
Qed.
Lemma cs_qprod_cons x l : qprod (x :: l) = (x * qprod l)%Qc.
Proof. unfold qprod. cbn [fold_left]. rewrite cs_fold_mult. ring. Qed.
Lemma cs_qnat_S n : qnat (S n) = (qnat n + 1)%Qc.
Proof.
  unfold qnat. apply Qc_is_canon. unfold Qcplus, Q2Qc. cbn [this]. rewrite !Qred_correct.
  rewrite Nat2Z.inj_succ. unfold Z.succ. rewrite inject_Z_plus. reflexivity.
Qed.
Lemma cs_qnat_0 : qnat 0 = 0%Qc.
Proof. apply Qc_is_canon. reflexivity. Qed.

Lemma cs_zip_madd_length a p w : length (zip_madd a p w) = length a.
Proof. revert p; induction a as [|x a IH]; intros [|y p]; cbn [zip_madd length]; auto. Qed.
Lemma cs_nth_zip_madd a p i : nth i (zip_madd a p 1%Qc) 0%Qc = (nth i a 0 + (if i <? length a then nth i p 0 else 0))%Qc.
Proof.
  revert p i; induction a as [|x a IH]; intros p i.
  - cbn [zip_madd length]. destruct p, i; cbn [nth Nat.ltb Nat.leb]; ring.
  - destruct p as [|y p].
    + cbn [zip_madd]. destruct i; cbn [nth]; destruct (_ <? _); ring.
    + cbn [zip_madd]. destruct i as [|i]; cbn [nth length].
      * replace (0 <? S (length a)) with true by (symmetry; apply Nat.ltb_lt; lia). ring.
      * rewrite IH. replace (S i <? S (length a)) with (i <? length a); [reflexivity|].
        destruct (i <? length a) eqn:E; symmetry; [apply Nat.ltb_lt in E; apply Nat.ltb_lt; lia|
          apply Nat.ltb_ge in E; apply Nat.ltb_ge; lia].
Qed.

Lemma cs_nth_map_indices (f : list nat -> Qc) sh k :
  positive_shape sh -> inb sh k = true -> nth (flat sh k) (map f (indices sh)) 0%Qc = f k.
Proof.
  intros Hp Hk. pose proof (flat_lt _ _ Hk) as Hlt.
  rewrite (nth_indep _ 0%Qc (f [])) by (rewrite map_length, indices_length; assumption).
  rewrite map_nth, nth_indices by assumption. now rewrite unflat_flat.
Qed.

(* ---- rec_counts / rec_complete as folds of explicit steps; relation with site_steps *)
Definition cs_rc_step (m : smap) (ct : list nat * list nat) (p : name * gres) : list nat * list nat :=
  match smap_get m (fst p), snd p with
  | Some pid, GCalled a => (add_nth (fst ct) pid a, add_nth (snd ct) pid 2)
  | _, _ => ct
  end.
Definition cs_cpl (m : smap) (p : name * gres) : bool :=
  match smap_get m (fst p), snd p with
  | Some _, GCalled _ => true
  | Some _, _ => false
  | None, _ => true
  end.

Lemma cs_rec_counts_fold m cols d gs :
  rec_counts m cols d gs = fold_left (cs_rc_step m) (combine cols gs) (repeat 0 d, repeat 0 d).
Proof.
  unfold rec_counts. generalize (repeat 0 d, repeat 0 d). generalize (combine cols gs).
  induction l as [|[c g] l IH]; intros [c0 t0]; [reflexivity|]. cbn [fold_left]. rewrite IH. f_equal.
Qed.
Lemma cs_rec_complete_forallb m cols gs : rec_complete m cols gs = forallb (cs_cpl m) (combine cols gs).
Proof. unfold rec_complete. apply cs_forallb_ext. intros [c g]. reflexivity. Qed.

Lemma cs_step_rc m st c g st' :
  site_step m st c g = Some st' ->
  cs_rc_step m (s_counts st, s_totals st) (c, g) = (s_counts st', s_totals st') /\
  s_tobuf st' = s_tobuf st /\
  (s_skipped st' = [] <-> s_skipped st = [] /\ cs_cpl m (c, g) = true).
Proof.
  unfold site_step, cs_rc_step, cs_cpl. cbn [fst snd]. destruct (smap_get m c) as [pid|].
  - destruct g; intros E; inversion E; subst; cbn [s_counts s_totals s_skipped s_tobuf];
      rewrite ?cs_snoc_not_nil; repeat split; try tauto; intros [? ?]; discriminate.
  - intros E; inversion E; subst. tauto.
Qed.

Lemma cs_steps_some m ps st st1 :
  cs_steps m st ps = Some st1 ->
  (s_counts st1, s_totals st1) = fold_left (cs_rc_step m) ps (s_counts st, s_totals st) /\
  s_tobuf st1 = s_tobuf st /\
  (s_skipped st1 = [] <-> s_skipped st = [] /\ forallb (cs_cpl m) ps = true).
Proof.
  revert st; induction ps as [|[c g] ps IH]; intros st H; cbn [cs_steps fold_left forallb] in *.
  - inversion H; subst. tauto.
  - cbn [fst snd] in H. destruct (site_step m st c g) as [st'|] eqn:E; [|discriminate].
    destruct (IH _ H) as (H1 & H2 & H3). destruct (cs_step_rc _ _ _ _ _ E) as (H4 & H5 & H6).
    rewrite H1, H2, H3, H4, H5, H6, andb_true_iff. tauto.
Qed.

Lemma cs_rc_fold_inv m ps c0 t0 :
  (forall c a, In (c, GCalled a) ps -> a <= 2) -> Forall2 le c0 t0 ->
  Forall2 le (fst (fold_left (cs_rc_step m) ps (c0, t0))) (snd (fold_left (cs_rc_step m) ps (c0, t0))) /\
  length (fst (fold_left (cs_rc_step m) ps (c0, t0))) = length c0.
Proof.
  revert c0 t0; induction ps as [|[c g] ps IH]; intros c0 t0 Ha H; cbn [fold_left]; [cbn [fst snd]; tauto|].
  assert (Ha' : forall c a, In (c, GCalled a) ps -> a <= 2) by (intros; eapply Ha; right; eassumption).
  unfold cs_rc_step at 2 4 6. cbn [fst snd]. destruct (smap_get m c) as [pid|]; [|now apply IH].
  destruct g; try now apply IH.
  destruct (IH (add_nth c0 pid g) (add_nth t0 pid 2) Ha') as [H1 H2].
  - apply cs_Forall2_add_nth; [assumption|]. apply (Ha c). now left.
  - split; [assumption|]. now rewrite H2, cs_add_nth_length.
Qed.

Definition cs_sel (m : smap) (j : nat) (c : name) : bool :=
  match smap_get m c with Some pid => pid =? j | None => false end.

Lemma cs_nth_add_nth_le l i v j : nth j (add_nth l i v) 0 <= nth j l 0 + (if i =? j then v else 0).
Proof.
  unfold add_nth. rewrite cs_nth_set_nth. rewrite (Nat.eqb_sym i j).
  destruct (j =? i) eqn:E; cbn [andb]; [|lia]. apply Nat.eqb_eq in E. subst.
  destruct (i <? length l); lia.
Qed.

Lemma cs_rc_fold_totals m j ps c0 t0 :
  nth j (snd (fold_left (cs_rc_step m) ps (c0, t0))) 0 <=
  nth j t0 0 + 2 * length (filter (cs_sel m j) (map fst ps)).
Proof.
  revert c0 t0; induction ps as [|[c g] ps IH]; intros c0 t0; cbn [fold_left map filter fst]; [cbn; lia|].
  unfold cs_rc_step at 2, cs_sel at 1. cbn [fst snd].
  destruct (smap_get m c) as [pid|]; [|apply IH].
  destruct g; try (etransitivity; [apply IH|]; destruct (pid =? j); cbn [length]; lia).
  etransitivity; [apply IH|]. pose proof (cs_nth_add_nth_le t0 pid 2 j) as Hle.
  destruct (pid =? j); cbn [length]; lia.
Qed.

Lemma cs_filter_fst_combine {B} (f : name -> bool) cols (gs : list B) :
  length (filter f (map fst (combine cols gs))) <= length (filter f cols).
Proof.
  revert gs; induction cols as [|c cols IH]; intros [|g gs]; cbn [combine map filter fst length]; try lia.
  specialize (IH gs). destruct (f c); cbn [length]; lia.
Qed.

Lemma cs_sel_cons k v m j c : cs_sel ((k, v) :: m) j c = if name_eqb c k then v =? j else cs_sel m j c.
Proof. unfold cs_sel. cbn [smap_get]. destruct (name_eqb c k); reflexivity. Qed.
Lemma cs_sel_nil j c : cs_sel [] j c = false.
Proof. reflexivity. Qed.

Lemma cs_sel_count m j cols : NoDup cols -> length (filter (cs_sel m j) cols) <= count_id j (map snd m).
Proof.
  revert cols; induction m as [|[k v] m IH]; intros cols Hn.
  - cbn [map count_id]. induction cols as [|c cols IHc]; [cbn; lia|].
    cbn [filter]. rewrite cs_sel_nil. inversion Hn; subst. now apply IHc.
  - cbn [map snd count_id]. etransitivity; [|apply Nat.add_le_mono_l, (IH cols Hn)].
    clear IH. induction cols as [|c cols IHc]; [cbn; lia|].
    inversion Hn as [|? ? Hc Hn']; subst. cbn [filter]. rewrite cs_sel_cons.
    destruct (name_eqb c k) eqn:E.
    + apply cs_name_eqb_eq in E. subst c.
      assert (Hext : filter (cs_sel ((k, v) :: m) j) cols = filter (cs_sel m j) cols).
      { apply filter_ext_in. intros c' Hc'. rewrite cs_sel_cons.
        rewrite cs_name_eqb_neq; [reflexivity|]. intros ->. contradiction. }
      rewrite Hext. destruct (v =? j), (cs_sel m j k); cbn [length]; lia.
    + specialize (IHc Hn'). destruct (cs_sel m j c); cbn [length]; lia.
Qed.

Lemma cs_shape_fold_inv vals ids sh :
  fold_right (fun id acc =>
                match acc with
                | None => None
                | Some sh => if count_id id vals =? 0 then None else Some (1 + 2 * count_id id vals :: sh)
                end) (Some []) ids = Some sh ->
  sh = map (fun id => 1 + 2 * count_id id vals) ids.
Proof.
  revert sh; induction ids as [|id ids IH]; intros sh H; cbn [fold_right map] in *; [congruence|].
  destruct (fold_right _ (Some []) ids) as [sh'|]; [|discriminate].
  destruct (count_id id vals =? 0); [discriminate|]. inversion H; subst. f_equal. now apply IH.
Qed.
Lemma cs_map_shape_nth m sh j :
  map_shape m = Some sh -> j < number_of_populations m -> nth j sh 0 = 1 + 2 * count_id j (map snd m).
Proof.
  intros H Hj. apply cs_shape_fold_inv in H. subst sh.
  set (f := fun id => 1 + 2 * count_id id (map snd m)).
  rewrite (nth_indep _ 0 (f 0)) by (rewrite map_length, seq_length; assumption).
  rewrite map_nth, seq_nth by assumption. reflexivity.
Qed.

Lemma cs_project_value_id to c k :
  Forall2 le c to -> length k = length to ->
  project_value to c to k = if list_eqb c k then 1%Qc else 0%Qc.
Proof.
  intros H. revert k; induction H as [|x y c t Hxy H IH]; intros [|z k] Hl; cbn [length] in Hl; try discriminate.
  - reflexivity.
  - unfold project_value. cbn [zip4 map list_eqb]. rewrite cs_qprod_cons.
    fold (project_value t c t k). rewrite IH by lia. rewrite hyp_id by assumption.
    destruct (x =? z), (list_eqb c k); cbn [andb]; ring.
Qed.

(* ------------------------------------------------------------------ C01 / C02 *)
Definition item_gts (it : item) : list gres := match it with IRec r => map classify (rec_gts r) | IIoErr => [] end.
Definition no_selected_ploidy (cfg : reader_cfg) (it : item) : Prop :=
  exists r, it = IRec r /\ length (rec_gts r) = length (r_cols cfg) /\
  forall i, i < length (r_cols cfg) -> smap_get (r_map cfg) (nth i (r_cols cfg) []) <> None ->
            classify (nth i (rec_gts r) None) <> GPloidyErr.

Definition d_of (cfg : reader_cfg) := number_of_populations (r_map cfg).

(* ---- invariant of the run loop and the effect of one record *)
Definition cs_inv (cfg : reader_cfg) (st : rstate) : Prop :=
  length (scs st) = elements (r_shape cfg) /\
  length (s_counts (rs st)) = d_of cfg /\ length (s_totals (rs st)) = d_of cfg /\
  (forall to, r_pto cfg = Some to -> length (s_tobuf (rs st)) = length to).

Lemma cs_inv_init cfg : cs_inv cfg (init_rstate cfg).
Proof.
  unfold cs_inv, init_rstate, init_sstate, d_of. cbn [scs rs s_counts s_totals s_tobuf].
  rewrite !repeat_length. repeat split. intros to ->. apply repeat_length.
Qed.

Lemma cs_site_analysis cfg r st :
  cfg_wf cfg -> no_selected_ploidy cfg (IRec r) ->
  length (s_counts st) = d_of cfg -> length (s_totals st) = d_of cfg ->
  exists st1, site_steps (r_map cfg) (reset st) (r_cols cfg) (map classify (rec_gts r)) = Some st1 /\
    s_counts st1 = fst (rec_counts (r_map cfg) (r_cols cfg) (d_of cfg) (map classify (rec_gts r))) /\
    s_totals st1 = snd (rec_counts (r_map cfg) (r_cols cfg) (d_of cfg) (map classify (rec_gts r))) /\
    s_tobuf st1 = s_tobuf st /\
    (s_skipped st1 = [] <-> rec_complete (r_map cfg) (r_cols cfg) (map classify (rec_gts r)) = true) /\
    Forall2 le (s_counts st1) (s_totals st1) /\ length (s_counts st1) = d_of cfg /\
    (forall j, nth j (s_totals st1) 0 <= 2 * count_id j (map snd (r_map cfg))).
Proof.
  intros Hwf Hnsp Hc Ht.
  destruct (cfg_wf_facts cfg Hwf) as (_ & _ & Hnd & _ & _).
  destruct (site_steps (r_map cfg) (reset st) (r_cols cfg) (map classify (rec_gts r))) as [st1|] eqn:E.
  2:{ exfalso. apply site_steps_none_iff in E. destruct E as (i & Hi1 & Hi2 & Hsel & Hp).
      destruct Hnsp as (r' & Heq & Hlen & Hall). inversion Heq; subst r'.
      apply (Hall i Hi1 Hsel). rewrite <- Hp. change GMissing with (classify None). now rewrite map_nth. }
  exists st1. split; [reflexivity|].
  rewrite cs_site_steps_pairs in E. apply cs_steps_some in E. destruct E as (H1 & H2 & H3).
  cbn [reset s_counts s_totals s_skipped s_tobuf] in H1, H2, H3.
  rewrite !cs_map_const_repeat, Hc, Ht, <- cs_rec_counts_fold in H1.
  assert (Hc1 : s_counts st1 = fst (rec_counts (r_map cfg) (r_cols cfg) (d_of cfg) (map classify (rec_gts r))))
    by (now rewrite <- H1).
  assert (Ht1 : s_totals st1 = snd (rec_counts (r_map cfg) (r_cols cfg) (d_of cfg) (map classify (rec_gts r))))
    by (now rewrite <- H1).
  split; [assumption|]. split; [assumption|]. split; [assumption|]. split.
  { rewrite H3, cs_rec_complete_forallb. tauto. }
  rewrite Hc1, Ht1, cs_rec_counts_fold.
  destruct (cs_rc_fold_inv (r_map cfg) (combine (r_cols cfg) (map classify (rec_gts r))) (repeat 0 (d_of cfg)) (repeat 0 (d_of cfg)))
    as [HF Hl]; [|apply cs_Forall2_le_repeat|].
  { intros c a Hin. apply in_combine_r, in_map_iff in Hin. destruct Hin as (g & Hg & _).
    eapply classify_called_range; eassumption. }
  split; [assumption|]. split; [now rewrite Hl, repeat_length|].
  intros j. etransitivity; [apply cs_rc_fold_totals|]. rewrite nth_repeat. cbn [Nat.add].
  apply Nat.mul_le_mono_l. etransitivity; [apply cs_filter_fst_combine|]. now apply cs_sel_count.
Qed.

Lemma cs_add1_at_nth l j i : j < length l ->
  nth i (add1_at l j) 0%Qc = (nth i l 0 + (if i =? j then 1 else 0))%Qc.
Proof.
  intros Hj. unfold add1_at. rewrite cs_nth_set_nth.
  replace (j <? length l) with true by (symmetry; now apply Nat.ltb_lt). rewrite andb_true_r.
  destruct (i =? j) eqn:E; [|ring]. apply Nat.eqb_eq in E. now subst.
Qed.

Lemma cs_flat_eqb sh c k : inb sh c = true -> inb sh k = true ->
  (flat sh k =? flat sh c) = list_eqb c k.
Proof.
  intros Hc Hk. destruct (list_eqb c k) eqn:E.
  - apply list_eqb_eq in E. subst. apply Nat.eqb_refl.
  - apply Nat.eqb_neq. intros H. apply cs_flat_inj in H; try assumption. subst.
    assert (list_eqb c c = true) by now apply list_eqb_eq. congruence.
Qed.

Lemma cs_step_counts cfg st it :
  cfg_wf cfg -> r_pto cfg = None -> no_selected_ploidy cfg it -> cs_inv cfg st ->
  exists st1, run_step cfg false st it = inl st1 /\ cs_inv cfg st1 /\
    forall k, inb (r_shape cfg) k = true ->
      nth (flat (r_shape cfg) k) (scs st1) 0%Qc =
      (nth (flat (r_shape cfg) k) (scs st) 0 +
       (if rec_complete (r_map cfg) (r_cols cfg) (item_gts it) &&
           list_eqb (fst (rec_counts (r_map cfg) (r_cols cfg) (d_of cfg) (item_gts it))) k then 1 else 0))%Qc.
Proof.
  intros Hwf Hpto Hnsp (Hlen & Hc & Ht & Hb).
  pose proof Hnsp as (r & Hit & _). subst it.
  destruct (cs_site_analysis cfg r (rs st) Hwf Hnsp Hc Ht)
    as (st1 & Hsteps & Hc1 & Ht1 & Hb1 & Hsk & HF & Hl1 & Hbound).
  destruct (cfg_wf_facts cfg Hwf) as (Hpos & Hshl & Hnd & Hpid & Hcase). rewrite Hpto in Hcase.
  cbn [item_gts]. unfold run_step, read_site. cbv zeta. rewrite Hsteps, Hpto.
  destruct (s_skipped st1) as [|sk0 sk] eqn:Esk.
  - assert (Hcpl : rec_complete (r_map cfg) (r_cols cfg) (map classify (rec_gts r)) = true) by now apply Hsk.
    rewrite Hcpl. cbn [andb]. eexists. split; [reflexivity|]. split.
    + unfold cs_inv. cbn [scs rs]. unfold add1_at. rewrite cs_set_nth_length.
      repeat split; try assumption.
      * rewrite <- (cs_Forall2_length _ _ _ HF). assumption.
      * intros to Hto. congruence.
    + intros k Hk. cbn [scs].
      assert (Hin : inb (r_shape cfg) (s_counts st1) = true).
      { apply cs_inb_of_nth; [unfold d_of in Hl1; congruence|]. intros j Hj.
        rewrite (cs_map_shape_nth _ _ j Hcase) by lia.
        pose proof (cs_Forall2_le_nth _ _ j HF). pose proof (Hbound j). lia. }
      rewrite cs_add1_at_nth by (rewrite Hlen; now apply flat_lt).
      rewrite (cs_flat_eqb _ _ _ Hin Hk), Hc1. reflexivity.
  - assert (Hcpl : rec_complete (r_map cfg) (r_cols cfg) (map classify (rec_gts r)) = false).
    { destruct (rec_complete (r_map cfg) (r_cols cfg) (map classify (rec_gts r))); [|reflexivity].
      destruct Hsk as [_ Hsk]. specialize (Hsk eq_refl). discriminate. }
    rewrite Hcpl. cbn [andb]. eexists. split; [reflexivity|]. split.
    + unfold cs_inv. cbn [scs rs]. repeat split; try assumption.
      * rewrite <- (cs_Forall2_length _ _ _ HF). assumption.
      * intros to Hto. congruence.
    + intros k Hk. cbn [scs]. ring.
Qed.

Lemma cs_run_counts cfg items :
  cfg_wf cfg -> r_pto cfg = None -> Forall (no_selected_ploidy cfg) items ->
  forall st, cs_inv cfg st ->
  exists st', run_items cfg false st items = inl st' /\
  forall k, inb (r_shape cfg) k = true ->
    nth (flat (r_shape cfg) k) (scs st') 0%Qc =
    (nth (flat (r_shape cfg) k) (scs st) 0 +
    qnat (length (filter (fun it => rec_complete (r_map cfg) (r_cols cfg) (item_gts it) &&
                                     list_eqb (fst (rec_counts (r_map cfg) (r_cols cfg) (d_of cfg) (item_gts it))) k) items)))%Qc.
Proof.
  intros Hwf Hpto HF. induction HF as [|it items Hit HF IH]; intros st Hinv.
  - exists st. split; [reflexivity|]. intros k Hk. cbn [filter length]. rewrite cs_qnat_0. ring.
  - destruct (cs_step_counts cfg st it Hwf Hpto Hit Hinv) as (st1 & Hstep & Hinv1 & Hval).
    destruct (IH st1 Hinv1) as (st' & Hrun & Hval'). exists st'. split.
    + cbn [run_items]. now rewrite Hstep.
    + intros k Hk. rewrite (Hval' k Hk), (Hval k Hk). cbn [filter].
      destruct (rec_complete (r_map cfg) (r_cols cfg) (item_gts it) &&
                list_eqb (fst (rec_counts (r_map cfg) (r_cols cfg) (d_of cfg) (item_gts it))) k);
        cbn [length]; rewrite ?cs_qnat_S; ring.
Qed.

(* C01: without projection, entry k = number of records that are complete for every selected
   sample and whose per-population ALT counts are k *)
Theorem create_counts cfg items :
  cfg_wf cfg -> r_pto cfg = None -> Forall (no_selected_ploidy cfg) items ->
  exists st, run_items cfg false (init_rstate cfg) items = inl st /\
  forall k, inb (r_shape cfg) k = true ->
    nth (flat (r_shape cfg) k) (scs st) 0%Qc =
    qnat (length (filter (fun it => rec_complete (r_map cfg) (r_cols cfg) (item_gts it) &&
                                     list_eqb (fst (rec_counts (r_map cfg) (r_cols cfg) (d_of cfg) (item_gts it))) k) items)).
Proof.
  intros Hwf Hpto HF.
  destruct (cs_run_counts cfg items Hwf Hpto HF (init_rstate cfg) (cs_inv_init cfg)) as (st & Hrun & Hval).
  exists st. split; [assumption|]. intros k Hk. rewrite (Hval k Hk).
  cbn [init_rstate scs]. rewrite nth_repeat. ring.
Qed.

(* C02: with projection target `to`, entry k = sum over covered records of
   prod_j Hypergeom(k_j; t_j, a_j, m_j); uncovered records add nothing *)
Definition covered (to totals : list nat) : bool := all2 (fun total t => t <=? total) totals to.
Lemma cs_step_project cfg to st it :
  cfg_wf cfg -> r_pto cfg = Some to -> no_selected_ploidy cfg it -> cs_inv cfg st ->
  exists st1, run_step cfg false st it = inl st1 /\ cs_inv cfg st1 /\
    forall k, inb (map S to) k = true ->
      nth (flat (map S to) k) (scs st1) 0%Qc =
      (nth (flat (map S to) k) (scs st) 0 +
       (let ct := rec_counts (r_map cfg) (r_cols cfg) (d_of cfg) (item_gts it) in
        if covered to (snd ct) then project_value (snd ct) (fst ct) to k else 0))%Qc.
Proof.
  intros Hwf Hpto Hnsp (Hlen & Hc & Ht & Hb).
  pose proof Hnsp as (r & Hit & _). subst it.
  destruct (cs_site_analysis cfg r (rs st) Hwf Hnsp Hc Ht)
    as (st1 & Hsteps & Hc1 & Ht1 & Hb1 & Hsk & HF & Hl1 & Hbound).
  destruct (cfg_wf_facts cfg Hwf) as (Hpos & Hshl & Hnd & Hpid & Hcase). rewrite Hpto in Hcase.
  destruct Hcase as [Hsh _]. rewrite Hsh in Hlen.
  assert (Hlto : length to = d_of cfg) by (unfold d_of; rewrite <- Hshl, Hsh; now rewrite map_length).
  cbn [item_gts]. cbv zeta. rewrite <- Hc1, <- Ht1. unfold covered.
  unfold run_step, read_site. cbv zeta. rewrite Hsteps, Hpto.
  assert (Hi2 : length (s_totals st1) = d_of cfg) by now rewrite <- (cs_Forall2_length _ _ _ HF).
  destruct (all2 Nat.eqb (s_totals st1) to) eqn:Eeq.
  - apply cs_all2_eqb_eq in Eeq; [|congruence].
    rewrite Eeq in HF |- *. rewrite cs_all2_le_refl.
    eexists. split; [reflexivity|]. split.
    + unfold cs_inv. cbn [scs rs]. unfold add1_at. rewrite cs_set_nth_length, Hsh.
      repeat split; try assumption. intros to' Hto'. rewrite Hb1. now apply Hb.
    + intros k Hk. cbn [scs]. rewrite Hsh.
      pose proof (cs_inb_S _ _ HF) as Hin.
      rewrite cs_add1_at_nth by (rewrite Hlen; now apply flat_lt).
      rewrite (cs_flat_eqb _ _ _ Hin Hk).
      rewrite cs_project_value_id; [reflexivity|assumption|].
      apply inb_length in Hk. now rewrite map_length in Hk.
  - destruct (all2 (fun total t => t <=? total) (s_totals st1) to) eqn:Ecov.
    + eexists. split; [reflexivity|]. split.
      * unfold cs_inv. cbn [scs rs s_counts s_totals s_tobuf]. unfold add_projected.
        rewrite cs_zip_madd_length, Hsh. repeat split; try assumption. intros to' Hto'. congruence.
      * intros k Hk. cbn [scs]. unfold add_projected.
        rewrite cs_map_const_repeat, cs_rev_repeat, Hb1, (Hb to Hpto), proj_iter_spec.
        rewrite cs_nth_zip_madd.
        replace (flat (map S to) k <? length (scs st)) with true
          by (symmetry; apply Nat.ltb_lt; rewrite Hlen; now apply flat_lt).
        rewrite cs_nth_map_indices; [reflexivity|apply cs_positive_map_S|assumption].
    + eexists. split; [reflexivity|]. split.
      * unfold cs_inv. cbn [scs rs]. rewrite Hsh. repeat split; try assumption.
        intros to' Hto'. rewrite Hb1. now apply Hb.
      * intros k Hk. cbn [scs]. ring.
Qed.

Lemma cs_run_project cfg to items :
  cfg_wf cfg -> r_pto cfg = Some to -> Forall (no_selected_ploidy cfg) items ->
  forall st, cs_inv cfg st ->
  exists st', run_items cfg false st items = inl st' /\
  forall k, inb (map S to) k = true ->
    nth (flat (map S to) k) (scs st') 0%Qc =
    (nth (flat (map S to) k) (scs st) 0 +
    qsum (map (fun it =>
                 let ct := rec_counts (r_map cfg) (r_cols cfg) (d_of cfg) (item_gts it) in
                 if covered to (snd ct) then project_value (snd ct) (fst ct) to k else 0%Qc) items))%Qc.
Proof.
  intros Hwf Hpto HF. induction HF as [|it items Hit HF IH]; intros st Hinv.
  - exists st. split; [reflexivity|]. intros k Hk. cbn [map]. unfold qsum. cbn [fold_left]. ring.
  - destruct (cs_step_project cfg to st it Hwf Hpto Hit Hinv) as (st1 & Hstep & Hinv1 & Hval).
    destruct (IH st1 Hinv1) as (st' & Hrun & Hval'). exists st'. split.
    + cbn [run_items]. now rewrite Hstep.
    + intros k Hk. rewrite (Hval' k Hk), (Hval k Hk). cbn [map]. rewrite cs_qsum_cons. ring.
Qed.

Theorem create_project_spec cfg to items :
  cfg_wf cfg -> r_pto cfg = Some to -> Forall (no_selected_ploidy cfg) items ->
  exists st, run_items cfg false (init_rstate cfg) items = inl st /\
  forall k, inb (map S to) k = true ->
    nth (flat (map S to) k) (scs st) 0%Qc =
    qsum (map (fun it =>
                 let ct := rec_counts (r_map cfg) (r_cols cfg) (d_of cfg) (item_gts it) in
                 if covered to (snd ct) then project_value (snd ct) (fst ct) to k else 0%Qc) items).
Proof.
  intros Hwf Hpto HF.
  destruct (cs_run_project cfg to items Hwf Hpto HF (init_rstate cfg) (cs_inv_init cfg)) as (st & Hrun & Hval).
  exists st. split; [assumption|]. intros k Hk. rewrite (Hval k Hk).
  cbn [init_rstate scs]. rewrite nth_repeat. ring.
Qed.
