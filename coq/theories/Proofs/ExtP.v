(* Folding and summing spectra that hold infinities and NaN (Model/Ext.v), C04 / C05 beyond the rationals. *)
From Sfs Require Import Index ArrayM Scalar Spectrum Ext IndexP ArrayP FoldP.
From Coq Require Import Lia QArith Qcanon.

Close Scope Qc_scope. Close Scope Q_scope. Open Scope nat_scope.

(* ---------------------------------------------------------------- IEEE sums *)
Definition ev_sum (l : list ev) : ev := fold_left ev_add l ev_zero.

Theorem ev_add_comm a b : ev_add a b = ev_add b a.
Proof. destruct a, b; try reflexivity. cbn [ev_add]. f_equal. ring. Qed.

Lemma fold_fin (l : list Qc) a : fold_left ev_add (map Fin l) (Fin a) = Fin (fold_left Qcplus l a).
Proof. revert a; induction l as [|b l IH]; intros a; cbn [map fold_left]; [reflexivity|]. exact (IH (a + b)%Qc). Qed.

Theorem ev_sum_fin (l : list Qc) : ev_sum (map Fin l) = Fin (qsum l).
Proof. unfold ev_sum, ev_zero, qsum. apply fold_fin. Qed.

Lemma fold_nan l : fold_left ev_add l NaN = NaN.
Proof. induction l as [|a l IH]; [reflexivity|]. cbn [fold_left]. destruct a; exact IH. Qed.

Lemma ev_add_nan_r a : ev_add a NaN = NaN.
Proof. destruct a; reflexivity. Qed.

(* NaN is carried along, never dropped *)
Theorem ev_sum_nan l : In NaN l -> ev_sum l = NaN.
Proof.
  intros H. apply in_split in H as (l1 & l2 & ->). unfold ev_sum.
  rewrite fold_left_app. cbn [fold_left]. rewrite ev_add_nan_r. apply fold_nan.
Qed.

Lemma fold_pinf l : ~ In NInf l -> ~ In NaN l -> fold_left ev_add l PInf = PInf.
Proof.
  induction l as [|a l IH]; intros H1 H2; [reflexivity|]. cbn [fold_left].
  destruct a; try (exfalso; (apply H1 + apply H2); left; reflexivity);
    apply IH; intros H; (apply H1 + apply H2); right; exact H.
Qed.

Lemma fold_fin_pinf l q : In PInf l -> ~ In NInf l -> ~ In NaN l -> fold_left ev_add l (Fin q) = PInf.
Proof.
  revert q; induction l as [|a l IH]; intros q H0 H1 H2; [destruct H0|]. cbn [fold_left].
  assert (H1' : ~ In NInf l) by (intros H; apply H1; right; exact H).
  assert (H2' : ~ In NaN l) by (intros H; apply H2; right; exact H).
  destruct a as [q'| | |].
  - apply IH; try assumption. destruct H0 as [H0|H0]; [discriminate|exact H0].
  - now apply fold_pinf.
  - exfalso; apply H1; left; reflexivity.
  - exfalso; apply H2; left; reflexivity.
Qed.

Lemma fold_ninf l : ~ In PInf l -> ~ In NaN l -> fold_left ev_add l NInf = NInf.
Proof.
  induction l as [|a l IH]; intros H1 H2; [reflexivity|]. cbn [fold_left].
  destruct a; try (exfalso; (apply H1 + apply H2); left; reflexivity);
    apply IH; intros H; (apply H1 + apply H2); right; exact H.
Qed.

Lemma fold_fin_ninf l q : In NInf l -> ~ In PInf l -> ~ In NaN l -> fold_left ev_add l (Fin q) = NInf.
Proof.
  revert q; induction l as [|a l IH]; intros q H0 H1 H2; [destruct H0|]. cbn [fold_left].
  assert (H1' : ~ In PInf l) by (intros H; apply H1; right; exact H).
  assert (H2' : ~ In NaN l) by (intros H; apply H2; right; exact H).
  destruct a as [q'| | |].
  - apply IH; try assumption. destruct H0 as [H0|H0]; [discriminate|exact H0].
  - exfalso; apply H1; left; reflexivity.
  - now apply fold_ninf.
  - exfalso; apply H2; left; reflexivity.
Qed.

Lemma fold_pinf_ninf l : In NInf l -> fold_left ev_add l PInf = NaN.
Proof.
  induction l as [|a l IH]; intros H0; [destruct H0|]. cbn [fold_left].
  destruct a as [q'| | |].
  - apply IH. destruct H0 as [H0|H0]; [discriminate|exact H0].
  - apply IH. destruct H0 as [H0|H0]; [discriminate|exact H0].
  - apply fold_nan.
  - apply fold_nan.
Qed.

Lemma fold_ninf_pinf l : In PInf l -> fold_left ev_add l NInf = NaN.
Proof.
  induction l as [|a l IH]; intros H0; [destruct H0|]. cbn [fold_left].
  destruct a as [q'| | |].
  - apply IH. destruct H0 as [H0|H0]; [discriminate|exact H0].
  - apply fold_nan.
  - apply IH. destruct H0 as [H0|H0]; [discriminate|exact H0].
  - apply fold_nan.
Qed.

Lemma fold_fin_opposite l q : In PInf l -> In NInf l -> fold_left ev_add l (Fin q) = NaN.
Proof.
  revert q; induction l as [|a l IH]; intros q H0 H1; [destruct H0|]. cbn [fold_left].
  destruct a as [q'| | |].
  - apply IH.
    + destruct H0 as [H0|H0]; [discriminate|exact H0].
    + destruct H1 as [H1|H1]; [discriminate|exact H1].
  - apply fold_pinf_ninf. destruct H1 as [H1|H1]; [discriminate|exact H1].
  - apply fold_ninf_pinf. destruct H0 as [H0|H0]; [discriminate|exact H0].
  - apply fold_nan.
Qed.

(* so is an infinity (unless the opposite one or a NaN is there as well) *)
Theorem ev_sum_pinf l : In PInf l -> ~ In NInf l -> ~ In NaN l -> ev_sum l = PInf.
Proof. intros H1 H2 H3. unfold ev_sum, ev_zero. now apply fold_fin_pinf. Qed.
Theorem ev_sum_ninf l : In NInf l -> ~ In PInf l -> ~ In NaN l -> ev_sum l = NInf.
Proof. intros H1 H2 H3. unfold ev_sum, ev_zero. now apply fold_fin_ninf. Qed.
Theorem ev_sum_opposite l : In PInf l -> In NInf l -> ev_sum l = NaN.
Proof. intros H1 H2. unfold ev_sum, ev_zero. now apply fold_fin_opposite. Qed.

(* ---------------------------------------------------------------- the one-axis sum *)
(* every cell of the marginal is the IEEE sum of the entries along the removed axis, in axis order *)
Theorem e_sum_axis_spec (x : espectrum) a idx' :
  wf x -> positive_shape (ashape x) -> a < dimensions x -> inb (remove_axis a (ashape x)) idx' = true ->
  get (e_sum_axis x a) idx' = Some (ev_sum (map (fun i => getd ev_zero x (insert_axis a i idx')) (seq 0 (nth a (ashape x) 0)))).
Proof. intros Hwf Hp Ha Hin. unfold e_sum_axis, ev_sum. now apply sum_axis_spec. Qed.

(* the views of an embedded spectrum are the embedded views *)
Definition vmap {A B} (f : A -> B) (v : view A) : view B :=
  {| vdata := map f (vdata v); vshape := vshape v; vstrides := vstrides v |}.

Lemma vnext_vmap {A B} (f : A -> B) v s :
  vnext (vmap f v) s = (fst (vnext v s), option_map f (snd (vnext v s))).
Proof.
  unfold vnext, vmap; cbn [vdata vshape vstrides].
  destruct (elements (vshape v) <=? vindex s); [reflexivity|].
  destruct (vindex s =? 0); [cbn [fst snd]; rewrite nth_error_map; reflexivity|].
  destruct (odo (rev (vshape v)) (rev (vstrides v)) (rcoords s) (voffset s)) as [[rco off] y].
  destruct y; cbn [fst snd]; rewrite ?nth_error_map; reflexivity.
Qed.

Lemma vcollect_vmap {A B} (f : A -> B) v fuel s :
  vcollect fuel (vmap f v) s = map f (vcollect fuel v s).
Proof.
  revert s; induction fuel as [|fuel IH]; intros s; [reflexivity|]. cbn [vcollect].
  rewrite vnext_vmap. destruct (vnext v s) as [s' [a|]]; cbn [fst snd option_map map]; [|reflexivity].
  f_equal. apply IH.
Qed.

Lemma view_items_vmap {A B} (f : A -> B) v : view_items (vmap f v) = map f (view_items v).
Proof. unfold view_items. apply vcollect_vmap. Qed.

Lemma get_axis_embed (x : spectrum) a i : get_axis (embed x) a i = option_map (vmap Fin) (get_axis x a i).
Proof.
  unfold get_axis, embed, dimensions, astrides; cbn [ashape adata].
  destruct ((length (ashape x) <=? a) || (nth a (ashape x) 0 <=? i))%bool; [reflexivity|].
  cbn [option_map]. unfold vmap; cbn [vdata vshape vstrides]. now rewrite skipn_map.
Qed.

Lemma axis_collect_embed (x : spectrum) a fuel i :
  axis_collect fuel (embed x) a i = map (vmap Fin) (axis_collect fuel x a i).
Proof.
  revert i; induction fuel as [|fuel IH]; intros i; [reflexivity|]. cbn [axis_collect]. unfold axis_next.
  rewrite get_axis_embed. destruct (get_axis x a i) as [v|]; cbn [option_map map]; [|reflexivity].
  f_equal. apply IH.
Qed.

Lemma axis_views_embed (x : spectrum) a : axis_views (embed x) a = map (vmap Fin) (axis_views x a).
Proof. unfold axis_views. change (ashape (embed x)) with (ashape x). apply axis_collect_embed. Qed.

Lemma zipadd_embed (acc ys : list Qc) :
  zipadd ev_add (map Fin acc) (map Fin ys) = map Fin (zipadd Qcplus acc ys).
Proof.
  revert ys; induction acc as [|a acc IH]; intros [|y ys]; cbn [map zipadd]; try reflexivity.
  change (ev_add (Fin a) (Fin y)) with (Fin (a + y)%Qc). f_equal. apply IH.
Qed.

Lemma fold_views_embed (vs : list (view Qc)) acc :
  fold_left (fun acc v => zipadd ev_add acc (view_items v)) (map (vmap Fin) vs) (map Fin acc) =
  map Fin (fold_left (fun acc v => zipadd Qcplus acc (view_items v)) vs acc).
Proof.
  revert acc; induction vs as [|v vs IH]; intros acc; cbn [map fold_left]; [reflexivity|].
  rewrite view_items_vmap, zipadd_embed. apply IH.
Qed.

Lemma map_repeat' {A B} (f : A -> B) a n : map f (repeat a n) = repeat (f a) n.
Proof. induction n as [|n IH]; cbn [repeat map]; [reflexivity|]. now rewrite IH. Qed.

(* on finite spectra it is the rational model *)
Theorem e_sum_axis_embed (x : spectrum) a : e_sum_axis (embed x) a = embed (q_sum_axis x a).
Proof.
  unfold e_sum_axis, q_sum_axis, sum_axis. rewrite axis_views_embed.
  change (ashape (embed x)) with (ashape x). unfold ev_zero. rewrite <- (map_repeat' Fin).
  rewrite fold_views_embed. reflexivity.
Qed.

(* ... and so is the marginalisation over any list of axes *)
Theorem e_marginalize_unchecked_embed (x : spectrum) axes :
  e_marginalize_unchecked (embed x) axes = embed (marginalize_unchecked x axes).
Proof.
  unfold e_marginalize_unchecked, marginalize_unchecked.
  assert (H : forall r, fold_left (fun '(removed, y) a => (S removed, e_sum_axis y (a - removed))) axes (r, embed x) =
                   (fst (fold_left (fun '(removed, y) a => (S removed, q_sum_axis y (a - removed))) axes (r, x)),
                    embed (snd (fold_left (fun '(removed, y) a => (S removed, q_sum_axis y (a - removed))) axes (r, x))))).
  { revert x; induction axes as [|a axes IH]; intros x r; cbn [fold_left fst snd]; [reflexivity|].
    rewrite e_sum_axis_embed. apply IH. }
  rewrite H. reflexivity.
Qed.

Theorem e_marginalize_embed (x : spectrum) axes :
  e_marginalize (embed x) axes = match marginalize x axes with inl y => inl (embed y) | inr e => inr e end.
Proof.
  unfold e_marginalize, marginalize. change (dimensions (embed x)) with (dimensions x).
  destruct (first_dup axes); [reflexivity|].
  destruct (find (fun a => dimensions x <=? a) axes); [reflexivity|].
  destruct (dimensions x <=? length axes); [reflexivity|].
  now rewrite e_marginalize_unchecked_embed.
Qed.

(* a NaN anywhere along the removed axis makes the marginal cell NaN; it is never dropped *)
Theorem e_sum_axis_nan (x : espectrum) a idx' i :
  wf x -> positive_shape (ashape x) -> a < dimensions x -> inb (remove_axis a (ashape x)) idx' = true ->
  i < nth a (ashape x) 0 -> getd ev_zero x (insert_axis a i idx') = NaN ->
  get (e_sum_axis x a) idx' = Some NaN.
Proof.
  intros Hwf Hp Ha Hin Hi Hn. rewrite e_sum_axis_spec by assumption. f_equal. apply ev_sum_nan.
  rewrite <- Hn. apply (in_map (fun i => getd ev_zero x (insert_axis a i idx'))). apply in_seq. lia.
Qed.

(* ---------------------------------------------------------------- fold *)
Lemma nth_map_seq {B} (f : nat -> B) n i d : i < n -> nth i (map f (seq 0 n)) d = f i.
Proof.
  intros Hi. rewrite (nth_indep _ d (f 0)) by (rewrite map_length, seq_length; exact Hi).
  rewrite map_nth, seq_nth by exact Hi. reflexivity.
Qed.

(* which cells take the fill value does not depend on any value: exactly those with index sum above the middle *)
Theorem e_fold_cells_none_iff (x : espectrum) i :
  i < length (adata x) ->
  (nth i (e_fold_cells x) None = None <-> (lsum (ashape x) - length (ashape x)) / 2 < index_sum_from_flat (ashape x) i).
Proof.
  intros Hi. unfold e_fold_cells. cbv zeta. rewrite nth_map_seq by assumption.
  destruct (Nat.compare_spec (index_sum_from_flat (ashape x) i) ((lsum (ashape x) - length (ashape x)) / 2)) as [E|E|E].
  - destruct ((lsum (ashape x) - length (ashape x)) mod 2 =? 0); split; (discriminate || lia).
  - split; (discriminate || lia).
  - split; auto.
Qed.

(* the kept cells do not depend on the fill value, whatever they evaluate to (NaN included) *)
Theorem e_fold_kept_independent_of_fill (x : espectrum) f f' i v :
  nth i (e_fold_cells x) None = Some v ->
  nth i (adata (e_fold x f)) f = v /\ nth i (adata (e_fold x f')) f' = v.
Proof.
  intros H. unfold e_fold; cbn [adata]. split.
  - etransitivity; [exact (map_nth (fun c => match c with Some v => v | None => f end) (e_fold_cells x) None i)|].
    rewrite H. reflexivity.
  - etransitivity; [exact (map_nth (fun c => match c with Some v => v | None => f' end) (e_fold_cells x) None i)|].
    rewrite H. reflexivity.
Qed.

(* a kept cell below the diagonal is NaN exactly when IEEE addition says so *)
Theorem e_fold_below_diagonal (x : espectrum) i :
  i < length (adata x) -> index_sum_from_flat (ashape x) i < (lsum (ashape x) - length (ashape x)) / 2 ->
  nth i (e_fold_cells x) None = Some (ev_add (nth i (adata x) ev_zero) (nth (length (adata x) - 1 - i) (adata x) ev_zero)).
Proof.
  intros Hi Hlt. unfold e_fold_cells. cbv zeta. rewrite nth_map_seq by assumption.
  apply Nat.compare_lt_iff in Hlt. rewrite Hlt. reflexivity.
Qed.

(* on finite spectra the extended fold is the rational model's fold *)
Theorem e_fold_cells_embed (x : spectrum) :
  e_fold_cells (embed x) = map (option_map Fin) (fold_cells x).
Proof.
  unfold e_fold_cells, fold_cells, embed. cbn [adata ashape]. cbv zeta.
  rewrite map_length, map_map. apply map_ext. intros i.
  change ev_zero with (Fin 0%Qc). rewrite !map_nth.
  destruct (index_sum_from_flat (ashape x) i ?= (lsum (ashape x) - length (ashape x)) / 2); [|reflexivity|reflexivity].
  destruct ((lsum (ashape x) - length (ashape x)) mod 2 =? 0); reflexivity.
Qed.

Example ext_examples :
  let q (z : Z) := Fin (Q2Qc (z # 1)) in
  e_fold {| adata := [q 1%Z; NaN; q 3%Z; PInf]; ashape := [4] |} (q 0%Z) =
    {| adata := [PInf; NaN; q 0%Z; q 0%Z]; ashape := [4] |} /\
  e_fold {| adata := [PInf; q 2%Z; NInf]; ashape := [3] |} (q (-1)%Z) =
    {| adata := [NaN; q 2%Z; q (-1)%Z]; ashape := [3] |} /\
  adata (e_sum_axis {| adata := [q 1%Z; PInf; q 3%Z; q 4%Z; NInf; NaN]; ashape := [2; 3] |} 0) = [q 5%Z; NaN; NaN] /\
  adata (e_sum_axis {| adata := [q 1%Z; PInf; q 3%Z; q 4%Z; NInf; NaN]; ashape := [2; 3] |} 1) = [PInf; NaN].
Proof. cbv zeta. repeat split; vm_compute; reflexivity. Qed.

