(* Proofs for property C04 (marginalization). Statements are FIXED; every proof is complete (Qed). *)
From Sfs Require Import Index ArrayM Scalar Spectrum IndexP ArrayP.
From Coq Require Import Lia Permutation Sorted.

Close Scope Qc_scope. Close Scope Q_scope. Open Scope nat_scope.

Definition valid_axes (d : nat) (axes : list nat) : Prop :=
  NoDup axes /\ Forall (fun a => a < d) axes /\ length axes < d.

(* ---- generic sums over Qc ---- *)
Lemma fold_left_Qcplus_acc l a : fold_left Qcplus l a = (a + fold_right Qcplus 0%Qc l)%Qc.
Proof.
  revert a; induction l as [|x l IH]; intros a; cbn [fold_left fold_right].
  - ring.
  - rewrite IH. ring.
Qed.

Lemma qsum_fold_right l : qsum l = fold_right Qcplus 0%Qc l.
Proof. unfold qsum. rewrite fold_left_Qcplus_acc. ring. Qed.

Lemma qsum_nil : qsum [] = 0%Qc.
Proof. reflexivity. Qed.
Lemma qsum_cons x l : qsum (x :: l) = (x + qsum l)%Qc.
Proof. rewrite !qsum_fold_right. reflexivity. Qed.

Lemma qsum_app l1 l2 : qsum (l1 ++ l2) = (qsum l1 + qsum l2)%Qc.
Proof.
  induction l1 as [|x l1 IH]; cbn [app].
  - rewrite qsum_nil. ring.
  - rewrite !qsum_cons, IH. ring.
Qed.
Lemma qsum_perm l1 l2 : Permutation l1 l2 -> qsum l1 = qsum l2.
Proof.
  induction 1 as [|x l l' _ IH|x y l|l l' l'' _ IH1 _ IH2].
  - reflexivity.
  - rewrite !qsum_cons, IH. reflexivity.
  - rewrite !qsum_cons. ring.
  - now rewrite IH1.
Qed.
Lemma qsum_map_add {A} (f g : A -> Qc) l : qsum (map (fun x => (f x + g x)%Qc) l) = (qsum (map f l) + qsum (map g l))%Qc.
Proof.
  induction l as [|x l IH]; cbn [map].
  - rewrite !qsum_nil. ring.
  - rewrite !qsum_cons, IH. ring.
Qed.

Lemma qsum_map_zero {A} (l : list A) : qsum (map (fun _ => 0%Qc) l) = 0%Qc.
Proof.
  induction l as [|x l IH]; cbn [map]; [reflexivity|]. rewrite qsum_cons, IH. ring.
Qed.

Lemma qsum_map_ext_in {A} (f g : A -> Qc) l :
  (forall x, In x l -> f x = g x) -> qsum (map f l) = qsum (map g l).
Proof. intros H. f_equal. now apply map_ext_in. Qed.

Lemma qsum_swap {A B} (f : A -> B -> Qc) la lb :
  qsum (map (fun a => qsum (map (fun b => f a b) lb)) la) = qsum (map (fun b => qsum (map (fun a => f a b) la)) lb).
Proof.
  induction la as [|a la IH]; cbn [map].
  - rewrite qsum_nil. symmetry. exact (qsum_map_zero lb).
  - rewrite qsum_cons, IH. rewrite <- qsum_map_add.
    apply qsum_map_ext_in. intros b _. now rewrite qsum_cons.
Qed.

Lemma qsum_flat_map {A B} (f : B -> Qc) (g : A -> list B) l :
  qsum (map f (flat_map g l)) = qsum (map (fun x => qsum (map f (g x))) l).
Proof.
  induction l as [|x l IH]; cbn [flat_map map]; [reflexivity|].
  rewrite map_app, qsum_app, qsum_cons, IH. reflexivity.
Qed.

Lemma qsum_scale {A} c (f : A -> Qc) l : qsum (map (fun x => (c * f x)%Qc) l) = (c * qsum (map f l))%Qc.
Proof.
  induction l as [|x l IH]; cbn [map].
  - rewrite !qsum_nil. ring.
  - rewrite !qsum_cons, IH. ring.
Qed.

Definition ind (b : bool) : Qc := if b then 1%Qc else 0%Qc.

Lemma qsum_filter {A} (p : A -> bool) (f : A -> Qc) l :
  qsum (map f (filter p l)) = qsum (map (fun x => (ind (p x) * f x)%Qc) l).
Proof.
  induction l as [|x l IH]; cbn [filter map]; [reflexivity|].
  rewrite qsum_cons, <- IH. destruct (p x); cbn [ind map].
  - rewrite qsum_cons. ring.
  - ring.
Qed.

(* Fubini over one axis of the index space *)
Lemma sum_indices_insert (f : list nat -> Qc) sh a :
  positive_shape sh -> a < length sh ->
  qsum (map f (indices sh)) =
  qsum (map (fun idx' => qsum (map (fun i => f (insert_axis a i idx')) (seq 0 (nth a sh 0)))) (indices (remove_axis a sh))).
Proof.
  intros _. revert sh f. induction a as [|a IH]; intros sh f Ha; destruct sh as [|n t]; cbn [length] in Ha; try lia.
  - rewrite remove_axis_0. cbn [nth indices]. rewrite qsum_flat_map.
    transitivity (qsum (map (fun i => qsum (map (fun r => f (i :: r)) (indices t))) (seq 0 n))).
    + apply qsum_map_ext_in. intros i _. now rewrite map_map.
    + exact (qsum_swap (fun i r => f (i :: r)) (seq 0 n) (indices t)).
  - rewrite remove_axis_cons. cbn [nth indices]. rewrite !qsum_flat_map.
    apply qsum_map_ext_in. intros i _. rewrite !map_map.
    rewrite (IH t (fun r => f (i :: r))) by lia.
    apply qsum_map_ext_in. intros r _. reflexivity.
Qed.

(* ---- q_sum_axis ---- *)
Lemma fold_views_length {A} (add : A -> A -> A) (vs : list (view A)) acc :
  length (fold_left (fun acc v => zipadd add acc (view_items v)) vs acc) = length acc.
Proof.
  revert acc; induction vs as [|v vs IH]; intros acc; cbn [fold_left]; [reflexivity|].
  rewrite IH. apply zipadd_length.
Qed.

Lemma q_sum_axis_wf x a : wf x -> positive_shape (ashape x) -> a < dimensions x ->
  wf (q_sum_axis x a) /\ ashape (q_sum_axis x a) = remove_axis a (ashape x).
Proof.
  intros Hwf Hp Ha. split; [|reflexivity].
  unfold wf, q_sum_axis, sum_axis. cbn [adata ashape].
  rewrite fold_views_length, repeat_length. reflexivity.
Qed.
Lemma q_sum_axis_get x a idx' : wf x -> positive_shape (ashape x) -> a < dimensions x ->
  inb (remove_axis a (ashape x)) idx' = true ->
  get (q_sum_axis x a) idx' = Some (qsum (map (fun i => q_getd x (insert_axis a i idx')) (seq 0 (nth a (ashape x) 0)))).
Proof.
  intros Hwf Hp Ha Hin. unfold q_sum_axis.
  exact (@sum_axis_spec _ 0%Qc Qcplus x a idx' Hwf Hp Ha Hin).
Qed.   (* from ArrayP.sum_axis_spec *)

Lemma nth_error_ext_eq {A} (l l' : list A) : (forall i, nth_error l i = nth_error l' i) -> l = l'.
Proof.
  revert l'; induction l as [|a l IH]; intros [|b l'] H.
  - reflexivity.
  - specialize (H 0); discriminate.
  - specialize (H 0); discriminate.
  - pose proof (H 0) as H0. cbn in H0. inversion H0; subst. f_equal. apply IH. intros i. exact (H (S i)).
Qed.

(* two well-formed arrays with equal shape and equal entries are equal *)
Lemma arr_ext (x y : spectrum) : wf x -> wf y -> positive_shape (ashape x) -> ashape x = ashape y ->
  (forall idx, inb (ashape x) idx = true -> get x idx = get y idx) -> x = y.
Proof.
  intros Hwx Hwy Hp Hsh H.
  assert (Hd : adata x = adata y).
  { apply nth_error_ext_eq. intros i. destruct (lt_dec i (elements (ashape x))) as [Hi|Hi].
    - assert (Hpy : positive_shape (ashape y)) by (rewrite <- Hsh; exact Hp).
      assert (Hiy : i < elements (ashape y)) by (rewrite <- Hsh; exact Hi).
      rewrite <- (@get_unflat _ x i Hp Hi), <- (@get_unflat _ y i Hpy Hiy), <- Hsh.
      apply H. now apply inb_unflat.
    - unfold wf in Hwx, Hwy. rewrite <- Hsh in Hwy.
      rewrite (proj2 (nth_error_None (adata x) i)) by lia.
      rewrite (proj2 (nth_error_None (adata y) i)) by lia. reflexivity. }
  destruct x as [dx sx], y as [dy sy]. cbn [adata ashape] in *. now subst.
Qed.

(* ---- errors ---- *)
Lemma existsb_eqb_In a l : existsb (Nat.eqb a) l = true <-> In a l.
Proof.
  rewrite existsb_exists. split.
  - intros [x [Hx He]]. apply Nat.eqb_eq in He. now subst.
  - intros H. exists a. split; [assumption|apply Nat.eqb_refl].
Qed.

Lemma first_dup_none_iff l : first_dup l = None <-> NoDup l.
Proof.
  induction l as [|a t IH]; cbn [first_dup].
  - split; [constructor|reflexivity].
  - destruct (existsb (Nat.eqb a) t) eqn:E.
    + apply existsb_eqb_In in E. split; [discriminate|]. intros H; inversion H; contradiction.
    + split.
      * intros H. constructor; [|now apply IH]. intros Hin. apply existsb_eqb_In in Hin. congruence.
      * intros H; inversion H; now apply IH.
Qed.
Lemma first_dup_some l a : first_dup l = Some a -> In a l /\ ~ NoDup l.
Proof.
  induction l as [|b t IH]; cbn [first_dup]; [discriminate|].
  destruct (existsb (Nat.eqb b) t) eqn:E.
  - intros H; inversion H; subst. apply existsb_eqb_In in E. split; [now left|].
    intros Hnd; inversion Hnd; contradiction.
  - intros H. destruct (IH H) as [Hin Hnd]. split; [now right|].
    intros Hnd'; inversion Hnd'; contradiction.
Qed.

Lemma insert_sorted_perm a l : Permutation (insert_sorted a l) (a :: l).
Proof.
  induction l as [|b t IH]; cbn [insert_sorted]; [reflexivity|].
  destruct (a <=? b); [reflexivity|].
  transitivity (b :: a :: t); [apply perm_skip, IH | apply perm_swap].
Qed.
Lemma sort_nat_perm l : Permutation (sort_nat l) l.
Proof.
  induction l as [|a l IH]; [reflexivity|].
  change (sort_nat (a :: l)) with (insert_sorted a (sort_nat l)).
  etransitivity; [apply insert_sorted_perm | apply perm_skip, IH].
Qed.
Lemma insert_sorted_sorted a l : StronglySorted le l -> StronglySorted le (insert_sorted a l).
Proof.
  induction 1 as [|b t Hs IH Hf]; cbn [insert_sorted].
  - repeat constructor.
  - destruct (a <=? b) eqn:E; [apply Nat.leb_le in E | apply Nat.leb_gt in E].
    + constructor; [now constructor|]. constructor; [exact E|].
      rewrite Forall_forall in *. intros c Hc. specialize (Hf c Hc). lia.
    + constructor; [exact IH|]. rewrite Forall_forall in *. intros c Hc.
      apply (Permutation_in _ (insert_sorted_perm a t)) in Hc. destruct Hc as [<-|Hc]; [lia|now apply Hf].
Qed.
Lemma sort_nat_sorted l : StronglySorted le (sort_nat l).
Proof.
  induction l as [|a l IH]; [constructor|].
  change (sort_nat (a :: l)) with (insert_sorted a (sort_nat l)). now apply insert_sorted_sorted.
Qed.
Lemma sorted_perm_eq l l' : StronglySorted le l -> StronglySorted le l' -> Permutation l l' -> l = l'.
Proof.
  revert l'; induction l as [|a t IH]; intros l' Hs Hs' Hp.
  - apply Permutation_nil in Hp. now subst.
  - destruct l' as [|b t']; [apply Permutation_sym, Permutation_nil in Hp; discriminate|].
    inversion Hs as [|? ? Hst Hfa]; subst. inversion Hs' as [|? ? Hst' Hfb]; subst.
    assert (a = b) as <-.
    { assert (Ha : In a (b :: t')) by (eapply Permutation_in; [exact Hp|now left]).
      assert (Hb : In b (a :: t)) by (eapply Permutation_in; [apply Permutation_sym; exact Hp|now left]).
      rewrite Forall_forall in Hfa, Hfb.
      destruct Ha as [->|Ha]; [reflexivity|]. destruct Hb as [->|Hb]; [reflexivity|].
      specialize (Hfa _ Hb). specialize (Hfb _ Ha). lia. }
    f_equal. apply IH; try assumption. eapply Permutation_cons_inv; exact Hp.
Qed.
Lemma sort_nat_perm_eq l l' : Permutation l l' -> sort_nat l = sort_nat l'.
Proof.
  intros Hp. apply sorted_perm_eq; try apply sort_nat_sorted.
  transitivity l; [apply sort_nat_perm|]. transitivity l'; [exact Hp|]. apply Permutation_sym, sort_nat_perm.
Qed.

Lemma find_oob_none d l : find (fun a => d <=? a) l = None <-> Forall (fun a => a < d) l.
Proof.
  split.
  - intros H. apply Forall_forall. intros a Ha. pose proof (find_none _ _ H a Ha) as E.
    cbv beta in E. apply Nat.leb_gt in E. exact E.
  - intros H. destruct (find (fun a => d <=? a) l) eqn:E; [|reflexivity].
    apply find_some in E as [Hin E]. apply Nat.leb_le in E. rewrite Forall_forall in H.
    specialize (H _ Hin). lia.
Qed.

Lemma marginalize_ok_aux x axes : valid_axes (dimensions x) axes ->
  marginalize x axes = inl (marginalize_unchecked x (sort_nat axes)).
Proof.
  intros (Hnd & Hb & Hl). unfold marginalize. cbv zeta.
  apply first_dup_none_iff in Hnd. rewrite Hnd. apply find_oob_none in Hb. rewrite Hb.
  destruct (dimensions x <=? length axes) eqn:E; [apply Nat.leb_le in E; lia|]. reflexivity.
Qed.

(* exact characterisation of the error cases and their precedence *)
Theorem marginalize_ok_iff x axes :
  (exists y, marginalize x axes = inl y) <-> valid_axes (dimensions x) axes.
Proof.
  split.
  - intros [y H]. unfold marginalize in H. cbv zeta in H.
    destruct (first_dup axes) eqn:E1; [discriminate|].
    destruct (find (fun a => dimensions x <=? a) axes) eqn:E2; [discriminate|].
    destruct (dimensions x <=? length axes) eqn:E3; [discriminate|].
    repeat split; [apply first_dup_none_iff | apply find_oob_none | apply Nat.leb_gt]; assumption.
  - intros H. eexists. apply marginalize_ok_aux; assumption.
Qed.
Theorem marginalize_ok x axes : valid_axes (dimensions x) axes ->
  marginalize x axes = inl (marginalize_unchecked x (sort_nat axes)).
Proof. apply marginalize_ok_aux. Qed.
Theorem marginalize_err_duplicate x axes : ~ NoDup axes ->
  exists a, marginalize x axes = inr (DuplicateAxis a) /\ In a axes.
Proof.
  intros Hnd. destruct (first_dup axes) eqn:E.
  - exists n. unfold marginalize; cbv zeta; rewrite E. split; [reflexivity|].
    apply first_dup_some in E; tauto.
  - apply first_dup_none_iff in E. contradiction.
Qed.
Theorem marginalize_err_bounds x axes : NoDup axes -> ~ Forall (fun a => a < dimensions x) axes ->
  exists a, marginalize x axes = inr (AxisOutOfBounds a (dimensions x)) /\ In a axes /\ dimensions x <= a.
Proof.
  intros Hnd Hnb. apply first_dup_none_iff in Hnd.
  destruct (find (fun a => dimensions x <=? a) axes) eqn:E.
  - exists n. unfold marginalize; cbv zeta; rewrite Hnd, E. split; [reflexivity|].
    apply find_some in E as [Hin E]. apply Nat.leb_le in E. auto.
  - apply find_oob_none in E. contradiction.
Qed.
Theorem marginalize_err_too_many x axes : NoDup axes -> Forall (fun a => a < dimensions x) axes ->
  dimensions x <= length axes -> marginalize x axes = inr (TooManyAxes (length axes) (dimensions x)).
Proof.
  intros Hnd Hb Hl. unfold marginalize; cbv zeta.
  apply first_dup_none_iff in Hnd. rewrite Hnd. apply find_oob_none in Hb. rewrite Hb.
  apply Nat.leb_le in Hl. rewrite Hl. reflexivity.
Qed.

(* ---- drop_axes combinatorics ---- *)
Fixpoint dropf {A} (keep : nat -> bool) (s : nat) (l : list A) : list A :=
  match l with
  | [] => []
  | x :: t => if keep s then x :: dropf keep (S s) t else dropf keep (S s) t
  end.

Lemma drop_axes_dropf_gen {A} axes s (l : list A) :
  map snd (filter (fun p => negb (existsb (Nat.eqb (fst p)) axes)) (combine (seq s (length l)) l))
  = dropf (fun i => negb (existsb (Nat.eqb i) axes)) s l.
Proof.
  revert s; induction l as [|x t IH]; intros s; cbn [length seq combine filter dropf fst]; [reflexivity|].
  destruct (negb (existsb (Nat.eqb s) axes)); cbn [map snd]; now rewrite IH.
Qed.
Lemma drop_axes_dropf {A} axes (l : list A) :
  drop_axes axes l = dropf (fun i => negb (existsb (Nat.eqb i) axes)) 0 l.
Proof. apply drop_axes_dropf_gen. Qed.

Lemma dropf_ext {A} k k' s (l : list A) : (forall i, s <= i -> k i = k' i) -> dropf k s l = dropf k' s l.
Proof.
  revert s; induction l as [|x t IH]; intros s H; cbn [dropf]; [reflexivity|].
  rewrite (H s) by lia. rewrite (IH (S s)) by (intros; apply H; lia). reflexivity.
Qed.
Lemma dropf_all {A} k s (l : list A) : (forall i, k i = true) -> dropf k s l = l.
Proof.
  intros H. revert s; induction l as [|x t IH]; intros s; cbn [dropf]; [reflexivity|]. now rewrite H, IH.
Qed.
Lemma dropf_shift {A} k k' s (l : list A) : (forall i, s <= i -> k' i = k (S i)) -> dropf k (S s) l = dropf k' s l.
Proof.
  revert s; induction l as [|x t IH]; intros s H; cbn [dropf]; [reflexivity|].
  rewrite <- (H s) by lia. rewrite (IH (S s)) by (intros; apply H; lia). reflexivity.
Qed.
Lemma dropf_remove {A} k k' s j (l : list A) :
  j < length l -> k (s + j) = false -> (forall i, i < s + j -> k' i = k i) ->
  (forall i, s + j <= i -> k' i = k (S i)) -> dropf k s l = dropf k' s (remove_axis j l).
Proof.
  revert s j; induction l as [|x t IH]; intros s j Hj Hk Hlt Hge; cbn [length] in Hj; [lia|].
  destruct j as [|j].
  - rewrite remove_axis_0. cbn [dropf]. rewrite Nat.add_0_r in *. rewrite Hk. now apply dropf_shift.
  - rewrite remove_axis_cons. cbn [dropf]. rewrite (Hlt s) by lia.
    rewrite (IH (S s) j); [reflexivity|lia| | |].
    + rewrite <- Hk. f_equal. lia.
    + intros i Hi. apply Hlt. lia.
    + intros i Hi. apply Hge. lia.
Qed.

Lemma drop_axes_ext {A} A1 A2 (l : list A) : (forall a, In a A1 <-> In a A2) -> drop_axes A1 l = drop_axes A2 l.
Proof.
  intros H. rewrite !drop_axes_dropf. apply dropf_ext. intros i _. f_equal.
  apply eq_iff_eq_true. rewrite !existsb_eqb_In. apply H.
Qed.
Lemma drop_axes_nil {A} (l : list A) : drop_axes [] l = l.
Proof. rewrite drop_axes_dropf. now apply dropf_all. Qed.

Definition renum (a : nat) (axes : list nat) : list nat := map (fun b => if a <? b then b - 1 else b) axes.

Lemma in_renum_lt a B i : ~ In a B -> i < a -> (In i (renum a B) <-> In i (a :: B)).
Proof.
  intros Hna Hi. unfold renum. rewrite in_map_iff. split.
  - intros [b [Hb Hin]]. right. destruct (a <? b) eqn:E; [apply Nat.ltb_lt in E; lia|]. now subst.
  - intros [->|Hin]; [lia|]. exists i. split; [|assumption].
    destruct (a <? i) eqn:E; [apply Nat.ltb_lt in E; lia|reflexivity].
Qed.
Lemma in_renum_ge a B i : ~ In a B -> a <= i -> (In i (renum a B) <-> In (S i) (a :: B)).
Proof.
  intros Hna Hi. unfold renum. rewrite in_map_iff. split.
  - intros [b [Hb Hin]]. right. destruct (a <? b) eqn:E.
    + apply Nat.ltb_lt in E. replace (S i) with b by lia. assumption.
    + apply Nat.ltb_ge in E. subst b. assert (i = a) by lia. subst; contradiction.
  - intros [->|Hin]; [lia|]. exists (S i). split; [|assumption].
    destruct (a <? S i) eqn:E; [lia | apply Nat.ltb_ge in E; lia].
Qed.

Lemma drop_axes_cons_remove {A} a B (l : list A) : a < length l -> ~ In a B ->
  drop_axes (a :: B) l = drop_axes (renum a B) (remove_axis a l).
Proof.
  intros Ha Hna. rewrite !drop_axes_dropf. apply (dropf_remove _ _ 0 a); cbn [Nat.add].
  - exact Ha.
  - cbn [existsb]. now rewrite Nat.eqb_refl.
  - intros i Hi. f_equal. apply eq_iff_eq_true. rewrite !existsb_eqb_In. now apply in_renum_lt.
  - intros i Hi. f_equal. apply eq_iff_eq_true. rewrite !existsb_eqb_In. now apply in_renum_ge.
Qed.

Lemma valid_axes_renum d a B : valid_axes d (a :: B) -> valid_axes (d - 1) (renum a B).
Proof.
  intros (Hnd & Hb & Hl). inversion Hnd as [|? ? Hna Hnd']; subst. inversion Hb as [|? ? Had Hb']; subst.
  rewrite Forall_forall in Hb'. repeat split.
  - apply NoDup_map_inj_in; [|assumption]. intros b c Hb1 Hc1 E.
    assert (b <> a) by (intros ->; contradiction). assert (c <> a) by (intros ->; contradiction).
    destruct (a <? b) eqn:E1; [apply Nat.ltb_lt in E1|apply Nat.ltb_ge in E1];
    (destruct (a <? c) eqn:E2; [apply Nat.ltb_lt in E2|apply Nat.ltb_ge in E2]); lia.
  - apply Forall_forall. intros i Hi. apply in_map_iff in Hi as [b [<- Hin]]. specialize (Hb' _ Hin).
    assert (b <> a) by (intros ->; contradiction).
    destruct (a <? b) eqn:E; [apply Nat.ltb_lt in E|apply Nat.ltb_ge in E]; lia.
  - unfold renum; rewrite map_length. cbn [length] in Hl. lia.
Qed.

Lemma valid_axes_perm d l l' : Permutation l l' -> valid_axes d l -> valid_axes d l'.
Proof.
  intros Hp (Hnd & Hb & Hl). repeat split.
  - eapply Permutation_NoDup; eassumption.
  - rewrite Forall_forall in *. intros a Ha. apply Hb. eapply Permutation_in; [apply Permutation_sym; exact Hp|exact Ha].
  - rewrite <- (Permutation_length Hp). exact Hl.
Qed.

Lemma positive_drop_axes axes sh : positive_shape sh -> positive_shape (drop_axes axes sh).
Proof.
  unfold positive_shape, drop_axes. rewrite !Forall_forall. intros H n Hn.
  apply in_map_iff in Hn as [[i m] [<- Hin]]. apply filter_In in Hin as [Hin _].
  apply in_combine_r in Hin. now apply H.
Qed.

(* ---- indicator of a single index ---- *)
Lemma list_eqb_eq a b : list_eqb a b = true <-> a = b.
Proof.
  revert b; induction a as [|x a IH]; intros [|y b]; cbn [list_eqb]; try (split; discriminate).
  - split; auto.
  - rewrite andb_true_iff, Nat.eqb_eq, IH. split.
    + intros [-> ->]; reflexivity.
    + intros H; inversion H; auto.
Qed.

Lemma filter_list_eqb_single l y : NoDup l -> In y l -> filter (fun x => list_eqb x y) l = [y].
Proof.
  induction l as [|h t IH]; intros Hnd Hin; [destruct Hin|].
  inversion Hnd as [|? ? Hnh Hnt]; subst. cbn [filter]. destruct (list_eqb h y) eqn:E.
  - apply list_eqb_eq in E. subst h. f_equal.
    assert (H : forall x, In x t -> list_eqb x y = false).
    { intros x Hx. destruct (list_eqb x y) eqn:E'; [|reflexivity]. apply list_eqb_eq in E'. subst; contradiction. }
    clear -H. induction t as [|z t IHt]; cbn [filter]; [reflexivity|]. rewrite H by now left.
    apply IHt. intros; apply H; now right.
  - destruct Hin as [->|Hin].
    + rewrite (proj2 (list_eqb_eq y y) eq_refl) in E. discriminate.
    + now apply IH.
Qed.

Lemma q_getd_of_get (x : spectrum) idx v : get x idx = Some v -> q_getd x idx = v.
Proof. unfold q_getd. now intros ->. Qed.

Lemma marg_spec_nil x idx' : wf x -> positive_shape (ashape x) -> inb (ashape x) idx' = true ->
  get x idx' = Some (marg_spec x [] idx').
Proof.
  intros Hwf Hp Hin. unfold marg_spec.
  rewrite (filter_ext _ (fun idx => list_eqb idx idx')) by (intros idx; now rewrite drop_axes_nil).
  rewrite filter_list_eqb_single; [|now apply NoDup_indices|now apply in_indices].
  cbn [map]. rewrite qsum_cons, qsum_nil. unfold q_getd.
  destruct (get x idx') eqn:E; [f_equal; ring|]. exfalso. revert E. now apply get_inb_some.
Qed.

Lemma marg_spec_ext x A1 A2 idx' : (forall a, In a A1 <-> In a A2) -> marg_spec x A1 idx' = marg_spec x A2 idx'.
Proof.
  intros H. unfold marg_spec. f_equal. f_equal. apply filter_ext. intros idx.
  now rewrite (drop_axes_ext A1 A2).
Qed.

(* summing out a, then the renumbered rest = summing out a :: rest *)
Lemma marg_spec_two_stage x a B idx' : wf x -> positive_shape (ashape x) -> a < dimensions x -> ~ In a B ->
  marg_spec x (a :: B) idx' = marg_spec (q_sum_axis x a) (renum a B) idx'.
Proof.
  intros Hwf Hp Ha Hna. unfold marg_spec.
  destruct (q_sum_axis_wf x a Hwf Hp Ha) as [Hwf1 Hsh1]. unfold dimensions in Ha.
  rewrite Hsh1, !qsum_filter.
  rewrite (sum_indices_insert _ (ashape x) a Hp Ha).
  apply qsum_map_ext_in. intros idx1 Hin1. apply in_indices in Hin1; [|now apply positive_remove_axis].
  assert (Hlen : length idx1 = length (ashape x) - 1).
  { rewrite (inb_length _ _ Hin1). now apply remove_axis_length. }
  transitivity (qsum (map (fun i => (ind (list_eqb (drop_axes (renum a B) idx1) idx') * q_getd x (insert_axis a i idx1))%Qc)
                          (seq 0 (nth a (ashape x) 0)))).
  - apply qsum_map_ext_in. intros i _.
    rewrite drop_axes_cons_remove; [|rewrite insert_axis_length; lia|assumption].
    rewrite remove_insert_axis by lia. reflexivity.
  - rewrite qsum_scale. f_equal. symmetry. apply q_getd_of_get. now apply q_sum_axis_get.
Qed.

Lemma adata_as_indices (x : spectrum) : wf x -> positive_shape (ashape x) ->
  adata x = map (q_getd x) (indices (ashape x)).
Proof.
  intros Hwf Hp. rewrite indices_unflat, map_map by assumption. apply nth_error_ext_eq. intros i.
  unfold wf in Hwf. destruct (lt_dec i (elements (ashape x))) as [Hi|Hi].
  - rewrite nth_error_map. rewrite (nth_error_nth' (seq 0 (elements (ashape x))) 0) by (rewrite seq_length; lia).
    cbn [option_map]. rewrite seq_nth by lia. cbn [Nat.add]. unfold q_getd. rewrite get_unflat by assumption.
    destruct (nth_error (adata x) i) eqn:E; [reflexivity|]. apply nth_error_None in E. lia.
  - rewrite (proj2 (nth_error_None (adata x) i)) by lia. symmetry. apply nth_error_None.
    rewrite map_length, seq_length. lia.
Qed.

Lemma q_sum_axis_mass x a : wf x -> positive_shape (ashape x) -> a < dimensions x ->
  spectrum_sum (q_sum_axis x a) = spectrum_sum x.
Proof.
  intros Hwf Hp Ha. destruct (q_sum_axis_wf x a Hwf Hp Ha) as [Hwf1 Hsh1].
  assert (Hp1 : positive_shape (ashape (q_sum_axis x a))) by (rewrite Hsh1; now apply positive_remove_axis).
  unfold spectrum_sum. rewrite (adata_as_indices (q_sum_axis x a) Hwf1 Hp1), (adata_as_indices x Hwf Hp).
  rewrite Hsh1. rewrite (sum_indices_insert (q_getd x) (ashape x) a Hp Ha).
  apply qsum_map_ext_in. intros idx1 Hin. apply in_indices in Hin; [|now apply positive_remove_axis].
  apply q_getd_of_get. now apply q_sum_axis_get.
Qed.

(* ---- the fold of marginalize_unchecked ---- *)
Definition mu_from (r : nat) (x : spectrum) (axes : list nat) : spectrum :=
  snd (fold_left (fun '(removed, y) a => (S removed, q_sum_axis y (a - removed))) axes (r, x)).

Lemma mu_from_nil r x : mu_from r x [] = x.
Proof. reflexivity. Qed.
Lemma mu_from_cons r x a rest : mu_from r x (a :: rest) = mu_from (S r) (q_sum_axis x (a - r)) rest.
Proof. reflexivity. Qed.
Lemma marginalize_unchecked_mu x axes : marginalize_unchecked x axes = mu_from 0 x axes.
Proof. reflexivity. Qed.

Lemma mu_from_spec axes : forall r x,
  wf x -> positive_shape (ashape x) -> StronglySorted lt axes -> Forall (fun b => r <= b) axes ->
  valid_axes (dimensions x) (map (fun b => b - r) axes) ->
  wf (mu_from r x axes) /\
  ashape (mu_from r x axes) = drop_axes (map (fun b => b - r) axes) (ashape x) /\
  (forall idx', inb (ashape (mu_from r x axes)) idx' = true ->
     get (mu_from r x axes) idx' = Some (marg_spec x (map (fun b => b - r) axes) idx')) /\
  spectrum_sum (mu_from r x axes) = spectrum_sum x.
Proof.
  induction axes as [|a rest IH]; intros r x Hwf Hp Hs Hr Hv.
  - rewrite mu_from_nil. cbn [map]. rewrite drop_axes_nil. repeat split; auto.
    intros idx' Hin. now apply marg_spec_nil.
  - rewrite mu_from_cons. cbn [map] in *.
    inversion Hs as [|? ? Hs' Hlt]; subst. inversion Hr as [|? ? Hra Hr']; subst.
    set (a' := a - r) in *. set (B := map (fun b => b - r) rest) in *.
    assert (Ha' : a' < dimensions x) by (destruct Hv as (_ & Hb & _); inversion Hb; assumption).
    assert (Hna : ~ In a' B) by (destruct Hv as (Hnd & _); inversion Hnd; assumption).
    destruct (q_sum_axis_wf x a' Hwf Hp Ha') as [Hwf1 Hsh1].
    assert (Hp1 : positive_shape (ashape (q_sum_axis x a'))) by (rewrite Hsh1; now apply positive_remove_axis).
    assert (HB : map (fun b => b - S r) rest = renum a' B).
    { unfold B, renum. rewrite map_map. apply map_ext_in. intros b Hb.
      rewrite Forall_forall in Hlt, Hr'. specialize (Hlt b Hb). specialize (Hr' b Hb). subst a'.
      destruct (a - r <? b - r) eqn:E; [lia | apply Nat.ltb_ge in E; lia]. }
    assert (Hd1 : dimensions (q_sum_axis x a') = dimensions x - 1).
    { unfold dimensions. rewrite Hsh1. now apply remove_axis_length. }
    specialize (IH (S r) (q_sum_axis x a') Hwf1 Hp1 Hs').
    rewrite HB, Hd1 in IH.
    destruct IH as (W & S1 & G & M).
    + rewrite Forall_forall in *. intros b Hb. specialize (Hlt b Hb). lia.
    + now apply valid_axes_renum.
    + split; [exact W|]. split; [|split].
      * rewrite S1, Hsh1. symmetry. now apply drop_axes_cons_remove.
      * intros idx' Hin. rewrite (G idx' Hin). f_equal. symmetry. now apply marg_spec_two_stage.
      * rewrite M. now apply q_sum_axis_mass.
Qed.

Lemma sorted_le_nodup_lt l : StronglySorted le l -> NoDup l -> StronglySorted lt l.
Proof.
  induction 1 as [|a t Hs IH Hf]; intros Hnd; constructor; inversion Hnd; subst.
  - now apply IH.
  - rewrite Forall_forall in *. intros b Hb. specialize (Hf b Hb).
    assert (a <> b) by (intros ->; contradiction). lia.
Qed.

Lemma map_sub0 l : map (fun b => b - 0) l = l.
Proof. rewrite <- (map_id l) at 2. apply map_ext. intros; lia. Qed.

Lemma marginalize_full x axes y :
  wf x -> positive_shape (ashape x) -> marginalize x axes = inl y ->
  wf y /\ ashape y = drop_axes axes (ashape x) /\
  (forall idx', inb (ashape y) idx' = true -> get y idx' = Some (marg_spec x axes idx')) /\
  spectrum_sum y = spectrum_sum x.
Proof.
  intros Hwf Hp Hm.
  assert (Hv : valid_axes (dimensions x) axes) by (apply marginalize_ok_iff; eauto).
  rewrite (marginalize_ok x axes Hv) in Hm. inversion Hm; subst y. clear Hm.
  pose proof (sort_nat_perm axes) as Hperm.
  assert (Hv' : valid_axes (dimensions x) (sort_nat axes))
    by (eapply valid_axes_perm; [apply Permutation_sym; exact Hperm | exact Hv]).
  rewrite marginalize_unchecked_mu.
  destruct (mu_from_spec (sort_nat axes) 0 x Hwf Hp) as (W & S1 & G & M).
  - apply sorted_le_nodup_lt; [apply sort_nat_sorted | apply Hv'].
  - apply Forall_forall; intros; lia.
  - rewrite map_sub0. exact Hv'.
  - rewrite map_sub0 in *.
    assert (Hmem : forall a, In a (sort_nat axes) <-> In a axes).
    { intros a; split; apply Permutation_in; [|apply Permutation_sym]; assumption. }
    split; [exact W|]. split; [|split].
    + rewrite S1. now apply drop_axes_ext.
    + intros idx' Hin. rewrite (G idx' Hin). f_equal. now apply marg_spec_ext.
    + exact M.
Qed.

(* ---- the main refinement: entries are the sums over all indices of the removed axes ---- *)
Theorem marginalize_spec x axes y :
  wf x -> positive_shape (ashape x) -> marginalize x axes = inl y ->
  wf y /\ ashape y = drop_axes axes (ashape x) /\
  forall idx', inb (ashape y) idx' = true -> get y idx' = Some (marg_spec x axes idx').
Proof.
  intros Hwf Hp Hm. destruct (marginalize_full x axes y Hwf Hp Hm) as (W & S1 & G & _). auto.
Qed.

(* order of naming is irrelevant (also for the success/failure status) *)
Theorem marginalize_perm x ax ax' : Permutation ax ax' ->
  forall y, marginalize x ax = inl y <-> marginalize x ax' = inl y.
Proof.
  assert (H : forall l l', Permutation l l' -> forall y, marginalize x l = inl y -> marginalize x l' = inl y).
  { intros l l' Hp y Hm.
    assert (Hv : valid_axes (dimensions x) l) by (apply marginalize_ok_iff; eauto).
    rewrite (marginalize_ok x l Hv) in Hm.
    rewrite (marginalize_ok x l' (valid_axes_perm _ _ _ Hp Hv)).
    now rewrite <- (sort_nat_perm_eq l l' Hp). }
  intros Hp y. split; apply H; [exact Hp | apply Permutation_sym; exact Hp].
Qed.

(* jointly = one at a time, with renumbering of the axes above the removed one *)
Definition renumber (a : nat) (axes : list nat) : list nat := map (fun b => if a <? b then b - 1 else b) axes.
Theorem marginalize_one_at_a_time x a axes :
  wf x -> positive_shape (ashape x) -> valid_axes (dimensions x) (a :: axes) ->
  marginalize x (a :: axes) =
    match marginalize x [a] with
    | inl y1 => match axes with [] => inl y1 | _ => marginalize y1 (renumber a axes) end
    | inr e => inr e
    end.
Proof.
  intros Hwf Hp Hv. change (renumber a axes) with (renum a axes).
  assert (Hv1 : valid_axes (dimensions x) [a]).
  { destruct Hv as (Hnd & Hb & Hl). inversion Hb; subst. cbn [length] in *. repeat split.
    - constructor; [intros []|constructor].
    - constructor; [assumption|constructor].
    - cbn [length] in *. lia. }
  assert (Ha : a < dimensions x) by (destruct Hv as (_ & Hb & _); inversion Hb; assumption).
  assert (Hna : ~ In a axes) by (destruct Hv as (Hnd & _); inversion Hnd; assumption).
  assert (Hone : marginalize x [a] = inl (q_sum_axis x a)).
  { rewrite (marginalize_ok x [a] Hv1).
    change (marginalize_unchecked x (sort_nat [a])) with (q_sum_axis x (a - 0)). now rewrite Nat.sub_0_r. }
  rewrite Hone.
  destruct axes as [|b t]; [exact Hone|].
  set (axes := b :: t) in *.
  destruct (q_sum_axis_wf x a Hwf Hp Ha) as [Hwf1 Hsh1].
  assert (Hp1 : positive_shape (ashape (q_sum_axis x a))) by (rewrite Hsh1; now apply positive_remove_axis).
  assert (Hd1 : dimensions (q_sum_axis x a) = dimensions x - 1).
  { unfold dimensions. rewrite Hsh1. now apply remove_axis_length. }
  assert (Hv2 : valid_axes (dimensions (q_sum_axis x a)) (renum a axes)).
  { rewrite Hd1. now apply valid_axes_renum. }
  pose proof (marginalize_ok x (a :: axes) Hv) as E1.
  pose proof (marginalize_ok (q_sum_axis x a) (renum a axes) Hv2) as E2.
  rewrite E1, E2. f_equal.
  destruct (marginalize_spec x (a :: axes) _ Hwf Hp E1) as (W1 & S1 & G1).
  destruct (marginalize_spec (q_sum_axis x a) (renum a axes) _ Hwf1 Hp1 E2) as (W2 & S2 & G2).
  assert (Hsh : ashape (marginalize_unchecked x (sort_nat (a :: axes))) =
                ashape (marginalize_unchecked (q_sum_axis x a) (sort_nat (renum a axes)))).
  { rewrite S1, S2, Hsh1. now apply drop_axes_cons_remove. }
  apply arr_ext; try assumption.
  - rewrite S1. now apply positive_drop_axes.
  - intros idx Hin. rewrite (G1 idx Hin). rewrite Hsh in Hin. rewrite (G2 idx Hin). f_equal.
    now apply marg_spec_two_stage.
Qed.

Theorem marginalize_mass x axes y :
  wf x -> positive_shape (ashape x) -> marginalize x axes = inl y -> spectrum_sum y = spectrum_sum x.
Proof.
  intros Hwf Hp Hm. destruct (marginalize_full x axes y Hwf Hp Hm) as (_ & _ & _ & M). exact M.
Qed.

Lemma StronglySorted_filter {A} (R : A -> A -> Prop) p l : StronglySorted R l -> StronglySorted R (filter p l).
Proof.
  induction 1 as [|a t Hs IH Hf]; cbn [filter]; [constructor|].
  destruct (p a); [|exact IH]. constructor; [exact IH|].
  rewrite Forall_forall in *. intros b Hb. apply filter_In in Hb as [Hb _]. now apply Hf.
Qed.
Lemma StronglySorted_seq s n : StronglySorted lt (seq s n).
Proof.
  revert s; induction n as [|n IH]; intros s; cbn [seq]; constructor; [apply IH|].
  apply Forall_forall. intros b Hb. apply in_seq in Hb. lia.
Qed.

(* --marginalize-keep K = --marginalize-remove (complement of K) *)
Theorem keep_to_remove_spec d keep :
  NoDup (keep_to_remove d keep) /\ StronglySorted lt (keep_to_remove d keep) /\
  forall i, In i (keep_to_remove d keep) <-> (i < d /\ ~ In i keep).
Proof.
  unfold keep_to_remove. split; [apply NoDup_filter, seq_NoDup|].
  split; [apply StronglySorted_filter, StronglySorted_seq|].
  intros i. rewrite filter_In, in_seq, negb_true_iff. split.
  - intros [H1 H2]. split; [lia|]. intros Hin. apply existsb_eqb_In in Hin. congruence.
  - intros [H1 H2]. split; [lia|]. destruct (existsb (Nat.eqb i) keep) eqn:E; [|reflexivity].
    apply existsb_eqb_In in E. contradiction.
Qed.

