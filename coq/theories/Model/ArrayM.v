(* Model of core/src/array.rs, array/iter.rs, array/view.rs, array/view/iter.rs
   (as repaired by the fix: commits for get_axis / view::Iter / AxisIter::size_hint).
   Definitions only. *)
From Sfs Require Export Index.

Set Implicit Arguments.

Section Array.
Variable A : Type.

(* Array<T>{data, shape, strides}: strides are always [strides shape] (Array::new_unchecked) *)
Record arr := { adata : list A; ashape : shape }.
Definition astrides (x : arr) : list nat := strides (ashape x).
Definition dimensions (x : arr) : nat := length (ashape x).

(* Array::new : Err when data.len() != shape.elements() *)
Definition arr_new (d : list A) (sh : shape) : option arr :=
  if length d =? elements sh then Some {| adata := d; ashape := sh |} else None.

Definition wf (x : arr) : Prop := length (adata x) = elements (ashape x).

(* Array::get *)
Definition get (x : arr) (idx : list nat) : option A :=
  if length idx =? dimensions x then
    match flat_index (astrides x) (ashape x) idx with
    | Some f => nth_error (adata x) f
    | None => None
    end
  else None.

(* Array::get_mut (and IndexMut) followed by a write through the reference: the array with the addressed element
   replaced; None where get_mut returns None *)
Fixpoint replace_nth (l : list A) (n : nat) (v : A) : list A :=
  match l, n with
  | [], _ => []
  | _ :: t, O => v :: t
  | a :: t, S k => a :: replace_nth t k v
  end.
Definition set (x : arr) (idx : list nat) (v : A) : option arr :=
  if length idx =? dimensions x then
    match flat_index (astrides x) (ashape x) idx with
    | Some f => if f <? length (adata x) then Some {| adata := replace_nth (adata x) f v; ashape := ashape x |} else None
    | None => None
    end
  else None.

(* View<'a,T>{data: &data[offset..], shape: RemovedAxis, strides: RemovedAxis} *)
Record view := { vdata : list A; vshape : shape; vstrides : list nat }.

(* Array::get_axis (repaired: axis >= dimensions is None) *)
Definition get_axis (x : arr) (a i : nat) : option view :=
  if (dimensions x <=? a) || (nth a (ashape x) 0 <=? i) then None
  else Some {| vdata := skipn (i * nth a (astrides x) 0) (adata x);
               vshape := remove_axis a (ashape x);
               vstrides := remove_axis a (astrides x) |}.

(* view::Iter{view, coords, offset, index}; coords kept last-axis-first, which is the order in
   which impl_next_rec visits them (axis = dimensions-1 down to 0) *)
Record vstate := { rcoords : list nat; voffset : nat; vindex : nat }.

Definition viter_new (v : view) : vstate :=
  {| rcoords := repeat 0 (length (vshape v)); voffset := 0; vindex := 0 |}.

(* impl_next_rec after the index==0 test: returns the new coords, offset and whether an axis
   could be advanced. At axis 0 the incremented coordinate is left in place, as in the code. *)
Fixpoint odo (rsh rst rco : list nat) (off : nat) : list nat * nat * bool :=
  match rsh, rst, rco with
  | n :: rsh', st :: rst', c :: rco' =>
      if S c <? n then (S c :: rco', off + st, true)
      else match rsh' with
           | [] => (S c :: rco', off, false)
           | _ :: _ => let '(rco'', off', y) := odo rsh' rst' rco' (off - st * (n - 1)) in
                       (0 :: rco'', off', y)
           end
  | _, _, _ => (rco, off, false)
  end.

(* Iterator::next for view::Iter (repaired: exhausted iterators stay exhausted; zero-axis views) *)
Definition vnext (v : view) (s : vstate) : vstate * option A :=
  if elements (vshape v) <=? vindex s then (s, None)
  else if vindex s =? 0 then
    ({| rcoords := rcoords s; voffset := voffset s; vindex := 1 |}, nth_error (vdata v) 0)
  else
    let '(rco, off, y) := odo (rev (vshape v)) (rev (vstrides v)) (rcoords s) (voffset s) in
    if y then ({| rcoords := rco; voffset := off; vindex := S (vindex s) |}, nth_error (vdata v) off)
    else ({| rcoords := rco; voffset := off; vindex := vindex s |}, None).

(* ExactSizeIterator::len for view::Iter *)
Definition vlen (v : view) (s : vstate) : nat := elements (vshape v) - vindex s.

(* run [k] calls of next, collecting the outputs *)
Fixpoint vrun (k : nat) (v : view) (s : vstate) : list (option A) * vstate :=
  match k with
  | O => ([], s)
  | S k' => let '(s', o) := vnext v s in let '(os, s'') := vrun k' v s' in (o :: os, s'')
  end.

(* all items a `for` loop over view.iter() sees: next until the first None (fuel = elements+1) *)
Fixpoint vcollect (fuel : nat) (v : view) (s : vstate) : list A :=
  match fuel with
  | O => []
  | S f => match vnext v s with
           | (s', Some a) => a :: vcollect f v s'
           | (_, None) => []
           end
  end.
Definition view_items (v : view) : list A := vcollect (S (elements (vshape v))) v (viter_new v).

(* View::to_array: the elements in iteration order under the view's shape, with FRESH row-major strides
   (Array::new_unchecked) - not the strides of the view, which are the parent's *)
Definition view_to_array (v : view) : arr := {| adata := view_items v; ashape := vshape v |}.

(* AxisIter{array, axis, index} *)
Definition axis_next (x : arr) (a : nat) (i : nat) : nat * option view :=
  match get_axis x a i with Some v => (S i, Some v) | None => (i, None) end.
(* repaired size_hint: remaining = axis length - index (0 for an out-of-range axis) *)
Definition axis_len (x : arr) (a : nat) (i : nat) : nat := nth a (ashape x) 0 - i.

Fixpoint axis_collect (fuel : nat) (x : arr) (a i : nat) : list view :=
  match fuel with
  | O => []
  | S f => match axis_next x a i with
           | (i', Some v) => v :: axis_collect f x a i'
           | (_, None) => []
           end
  end.
Definition axis_views (x : arr) (a : nat) : list view := axis_collect (S (nth a (ashape x) 0)) x a 0.

(* IndicesIter{shape, index, total} *)
Definition ind_next (sh : shape) (index total : nat) : nat * option (list nat) :=
  if index <? total then (S index, Some (index_from_flat sh index)) else (index, None).
Definition ind_len (index total : nat) : nat := total - index.

(* Array::sum(axis): fold the axis views, adding element-wise into zeros of the reduced shape.
   zip stops at the shorter side. *)
Variable zero : A.
Variable add : A -> A -> A.

Fixpoint zipadd (acc ys : list A) : list A :=
  match acc, ys with
  | a :: acc', y :: ys' => add a y :: zipadd acc' ys'
  | a :: acc', [] => a :: acc'
  | [], _ => []
  end.

Definition sum_axis (x : arr) (a : nat) : arr :=
  let sh' := remove_axis a (ashape x) in
  {| adata := fold_left (fun acc v => zipadd acc (view_items v)) (axis_views x a)
                        (repeat zero (elements sh'));
     ashape := sh' |}.

End Array.
