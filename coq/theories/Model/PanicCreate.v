(* Panic skeleton of `sfs create` below the decoders (core/src/input/site/reader.rs, core/src/spectrum/project.rs,
   core/src/utils.rs, cli/src/create/runner.rs, as repaired): every operation that can abort - indexing by a population id,
   `unwrap` of a sample lookup, indexing the spectrum by the site's counts, unsigned subtractions of the projection iterator
   and of the hypergeometric kernel - written as an explicit step that returns [Panic site]; the state evolves as in the
   run-loop model (Create.v), whose own definitions are total (out-of-range writes are no-ops there) and therefore cannot
   show a panic. Definitions only. *)
From Sfs Require Export Create Panic.

Close Scope Qc_scope. Close Scope Q_scope. Open Scope nat_scope.

(* read_site: one (sample column, genotype) pair of the zip *)
Definition site_step_skel (m : smap) (d : nat) (col : name) (g : gres) : outcome unit :=
  match smap_get m col with
  | None => Done tt                                                        (* not selected: continue *)
  | Some pid =>
    match g with
    | GCalled _ => _ <- at_ 9601 (repeat tt d) pid ;;                      (* reader.rs: self.counts[population_id] *)
                   _ <- at_ 9701 (repeat tt d) pid ;; Done tt              (* self.totals[population_id] *)
    | GMissing | GMultiallelic =>
        match smap_index_of m col with Some _ => Done tt | None => Panic 10001 end    (* get_sample_id(sample).unwrap() *)
    | GPloidyErr => Fail
    end
  end.

Fixpoint site_steps_skel (m : smap) (d : nat) (cols : list name) (gs : list gres) : outcome unit :=
  match cols, gs with
  | c :: cols', g :: gs' => _ <- site_step_skel m d c g ;; site_steps_skel m d cols' gs'
  | _, _ => Done tt
  end.

(* a projected site: ProjectIter::next computes dimensions() - 1; every item multiplies hypergeometric_pmf(size = total,
   successes = count, draws = target, observed), which subtracts size - successes (draws - observed is guarded by the
   `observed > draws` test; the factorial differences by `k > n`) *)
Definition projected_site_skel (totals counts to : list nat) : outcome unit :=
  _ <- usub 17901 (length to) 1 ;;                                          (* project.rs: self.dimensions() - 1 *)
  _ <- at_ 16301 (repeat tt (length to)) (length to - 1) ;;                (* self.to[axis], self.project_to[axis] *)
  for_each (combine totals counts) (fun '(t, c) => _ <- usub 2201 t c ;; Done tt).   (* utils.rs: size - successes *)

(* runner.rs: scs[&counts] += 1.0 *)
Definition index_skel (sh : shape) (idx : list nat) : outcome unit :=
  if inb sh idx then Done tt else Panic 7601.

(* one record: the zip, then what the runner does with the site, then the trace of the skipped samples
   (current_skipped_samples: get_sample(id).unwrap()) *)
Definition record_skel (cfg : reader_cfg) (st : sstate) (gs : list gres) : outcome unit :=
  _ <- site_steps_skel (r_map cfg) (length (s_counts st)) (r_cols cfg) gs ;;
  let '(st1, res) := read_site (r_map cfg) (r_cols cfg) (r_pto cfg) st gs in
  match res with
  | SErrPloidy => Fail
  | SRead s =>
    _ <- match s with
         | Standard counts => index_skel (r_shape cfg) counts
         | Projected _ => match r_pto cfg with
                          | Some to => projected_site_skel (s_totals st1) (s_counts st1) to
                          | None => Panic 0                                  (* unreachable: no projection configured *)
                          end
         | Insufficient => Done tt
         end ;;
    for_each (s_skipped st1) (fun '(i, _) => _ <- at_ 5201 (repeat tt (length (r_map cfg))) i ;; Done tt)
  end.

(* the run: the skeleton of each record, the state stepping as in the model; a reader error, a ploidy error and a strict
   violation end the run with a diagnosed failure *)
Fixpoint create_skel (cfg : reader_cfg) (strict : bool) (st : rstate) (items : list item) : outcome unit :=
  match items with
  | [] => Done tt
  | IIoErr :: _ => Fail
  | IRec r :: rest =>
    _ <- record_skel cfg (rs st) (map classify (rec_gts r)) ;;
    match run_step cfg strict st (IRec r) with
    | inl st' => create_skel cfg strict st' rest
    | inr _ => Fail
    end
  end.
