(* Index spaces of N-dimensional row-major arrays.
   Models core/src/array/shape.rs, shape/strides.rs, shape/removed_axis.rs.
   Definitions only (no proofs): the model must still run when a proof is broken. *)
From Coq Require Export List Arith Bool Lia.
Export ListNotations.

Definition shape := list nat.

(* Shape::elements : product of the axis lengths *)
Fixpoint elements (sh : shape) : nat :=
  match sh with [] => 1 | n :: t => n * elements t end.

(* Shape::strides : stride of axis j = product of the later axis lengths *)
Fixpoint strides (sh : shape) : list nat :=
  match sh with [] => [] | _ :: t => elements t :: strides t end.

(* Strides::flat_index_unchecked : fold (flat + stride * idx) over zip *)
Fixpoint dot (st idx : list nat) : nat :=
  match st, idx with s :: st', i :: idx' => s * i + dot st' idx' | _, _ => 0 end.

(* in-bounds test of Strides::flat_index : zip(index, shape).all(idx < shape); lengths checked apart *)
Fixpoint all_lt (idx sh : list nat) : bool :=
  match idx, sh with i :: idx', n :: sh' => (i <? n) && all_lt idx' sh' | _, _ => true end.

Definition flat_index (st : list nat) (sh : shape) (idx : list nat) : option nat :=
  if (length st =? length sh) && (length sh =? length idx) then
    if all_lt idx sh then Some (dot st idx) else None
  else None.

(* mathematical row-major position (spec side) *)
Fixpoint flat (sh : shape) (idx : list nat) : nat :=
  match sh, idx with _ :: t, i :: r => i * elements t + flat t r | _, _ => 0 end.

(* Shape::index_from_flat_unchecked: n = elements; per axis: n /= v; idx = flat / n; flat %= n *)
Fixpoint unflat_loop (sh : shape) (n fl : nat) : list nat :=
  match sh with
  | [] => []
  | v :: t => let n' := n / v in (fl / n') :: unflat_loop t n' (fl mod n')
  end.
Definition index_from_flat (sh : shape) (fl : nat) : list nat := unflat_loop sh (elements sh) fl.

(* spec-side inverse of [flat] *)
Fixpoint unflat (sh : shape) (i : nat) : list nat :=
  match sh with [] => [] | _ :: t => (i / elements t) :: unflat t (i mod elements t) end.

(* Shape::index_sum_from_flat_unchecked *)
Fixpoint idxsum_loop (sh : shape) (n fl : nat) : nat :=
  match sh with
  | [] => 0
  | v :: t => let n' := n / v in fl / n' + idxsum_loop t n' (fl mod n')
  end.
Definition index_sum_from_flat (sh : shape) (fl : nat) : nat := idxsum_loop sh (elements sh) fl.

Definition lsum (l : list nat) : nat := fold_right Nat.add 0 l.

Fixpoint inb (sh : shape) (idx : list nat) : bool :=
  match sh, idx with
  | [], [] => true
  | n :: t, i :: r => (i <? n) && inb t r
  | _, _ => false
  end.

Fixpoint mirror (sh : shape) (idx : list nat) : list nat :=
  match sh, idx with n :: t, i :: r => (n - 1 - i) :: mirror t r | _, _ => [] end.

(* row-major enumeration of the index space *)
Fixpoint indices (sh : shape) : list (list nat) :=
  match sh with
  | [] => [[]]
  | n :: t => flat_map (fun i => map (cons i) (indices t)) (seq 0 n)
  end.

(* RemovedAxis: the list without position a *)
Definition remove_axis {A} (a : nat) (l : list A) : list A := firstn a l ++ skipn (S a) l.
Definition insert_axis {A} (a : nat) (x : A) (l : list A) : list A := firstn a l ++ x :: skipn a l.

Definition positive_shape (sh : shape) : Prop := Forall (fun n => 0 < n) sh.
Definition positive_shapeb (sh : shape) : bool := forallb (fun n => 0 <? n) sh.
