(* Spectrum values beyond the rationals: what f64 adds to them as far as folding and summing are concerned - the two
   infinities and NaN - with IEEE 754's rules for addition and for scaling by 1/2. Rounding is not represented (finite
   parts are exact, as everywhere in the model): the claims are about WHICH cells are NaN, infinite or taken from the fill
   value, and about exact values where f64 is exact. fold (spectrum/folded.rs) and the one-axis sum (Array::sum, generic in
   ArrayM.v) are instantiated at these values. Definitions only. *)
From Sfs Require Export Spectrum.

Inductive ev := Fin (q : Qc) | PInf | NInf | NaN.

Definition ev_add (a b : ev) : ev :=
  match a, b with
  | NaN, _ | _, NaN => NaN
  | PInf, NInf | NInf, PInf => NaN
  | PInf, _ | _, PInf => PInf
  | NInf, _ | _, NInf => NInf
  | Fin x, Fin y => Fin (x + y)%Qc
  end.
Definition ev_half (a : ev) : ev := match a with Fin x => Fin (qhalf * x)%Qc | o => o end.     (* 0.5 * a *)
Definition ev_zero : ev := Fin 0%Qc.
Definition is_nan (a : ev) : bool := match a with NaN => true | _ => false end.

Definition espectrum := arr ev.
Definition embed (x : spectrum) : espectrum := {| adata := map Fin (adata x); ashape := ashape x |}.

(* Array::sum along one axis: the generic sum_axis with IEEE addition, starting from zeros *)
Definition e_sum_axis (x : espectrum) (a : nat) : espectrum := sum_axis ev_zero ev_add x a.

(* Spectrum::marginalize_unchecked at these values (same loop as in Spectrum.v) *)
Definition e_marginalize_unchecked (x : espectrum) (axes : list nat) : espectrum :=
  snd (fold_left (fun '(removed, y) a => (S removed, e_sum_axis y (a - removed))) axes (0, x)).

Definition e_marginalize (x : espectrum) (axes : list nat) : espectrum + merr :=
  let d := dimensions x in
  match first_dup axes with
  | Some a => inr (DuplicateAxis a)
  | None =>
    match find (fun a => d <=? a) axes with
    | Some a => inr (AxisOutOfBounds a d)
    | None =>
      if d <=? length axes then inr (TooManyAxes (length axes) d)
      else inl (e_marginalize_unchecked x (sort_nat axes))
    end
  end.

(* Folded::from_spectrum + into_spectrum(fill): the cells below the diagonal are x + mirror, on it 0.5*x + 0.5*mirror, the
   cells above it the fill value - whatever the kept cells evaluate to *)
Definition e_fold_cells (x : espectrum) : list (option ev) :=
  let sh := ashape x in
  let n := length (adata x) in
  let total := lsum sh - length sh in
  let mid := total / 2 in
  let has_diagonal := (total mod 2 =? 0) in
  map (fun i =>
         let rev_i := n - 1 - i in
         let count := index_sum_from_flat sh i in
         let a := nth i (adata x) ev_zero in
         let b := nth rev_i (adata x) ev_zero in
         match Nat.compare count mid with
         | Lt => Some (ev_add a b)
         | Eq => if has_diagonal then Some (ev_add (ev_half a) (ev_half b)) else Some (ev_add a b)
         | Gt => None
         end) (seq 0 n).
Definition e_fold (x : espectrum) (fill : ev) : espectrum :=
  {| adata := map (fun c => match c with Some v => v | None => fill end) (e_fold_cells x); ashape := ashape x |}.
