(* Model of core/src/spectrum/io/text.rs (plain text format), io.rs (format detection) and of the two
   std functions it relies on, as executable stand-ins: `{:.p}` formatting of f64 (exact decimal expansion,
   round half to even) and f64::from_str (correctly rounded). The stand-ins are validated against Rust by the
   correspondence check on every run; theorems that need their properties take them as Section hypotheses.
   f64 values are bit patterns (N). Definitions only. *)
From Sfs Require Export Npy.
From Coq Require Export ZArith.

Close Scope string_scope. Open Scope N_scope.

(* ---------------------------------------------------------------- binary64 decoding *)
Definition f_sign (w : N) : bool := N.testbit w 63.
Definition f_exp (w : N) : N := N.land (N.shiftr w 52) 2047.
Definition f_man (w : N) : N := N.land w 4503599627370495.       (* 2^52 - 1 *)
Definition f_is_nan (w : N) : bool := (f_exp w =? 2047) && negb (f_man w =? 0).
Definition f_is_inf (w : N) : bool := (f_exp w =? 2047) && (f_man w =? 0).
(* finite value = M * 2^x with M, x: *)
Definition f_M (w : N) : N := if f_exp w =? 0 then f_man w else f_man w + 4503599627370496.
Definition f_x (w : N) : Z := (Z.of_N (if (f_exp w =? 0)%N then 1%N else f_exp w) - 1075)%Z.

(* round to nearest, ties to even, of num/den (den > 0) *)
Definition rne_div (num den : N) : N :=
  let q := num / den in
  let r := num mod den in
  if (den <? 2 * r) || ((den =? 2 * r) && N.odd q) then q + 1 else q.

(* ---------------------------------------------------------------- `{:.p}` *)
Definition pad_zeros (k : nat) (ds : bytes) : bytes := repeat 48 (k - length ds) ++ ds.

Definition print_fixed (w : N) (p : nat) : bytes :=
  if f_is_nan w then str "NaN"
  else if f_is_inf w then (if f_sign w then str "-inf" else str "inf")
  else
    let M := f_M w in
    let x := f_x w in
    let scaled :=                      (* round(M * 2^x * 10^p) *)
      match x with
      | Zneg e => rne_div (M * 10 ^ N.of_nat p) (2 ^ Npos e)
      | _ => M * 2 ^ Z.to_N x * 10 ^ N.of_nat p
      end in
    let ds := pad_zeros (S p) (dec scaled) in
    let ip := firstn (length ds - p) ds in
    let fp := skipn (length ds - p) ds in
    (if f_sign w then [45] else []) ++ ip ++ (match p with O => [] | S _ => 46 :: fp end).

(* ---------------------------------------------------------------- f64::from_str *)
(* nearest binary64 (ties to even) of the positive rational num/den; overflow gives +inf *)
Definition rn_b64_pos (num den : N) : N :=
  if num =? 0 then 0 else
  (* e with 2^e <= num/den < 2^(e+1) *)
  let e0 := (Z.of_N (N.log2 num) - Z.of_N (N.log2 den))%Z in
  let ge := fun (e : Z) =>           (* num/den >= 2^e ? *)
              match e with
              | Zneg k => den <=? num * 2 ^ Npos k
              | _ => den * 2 ^ Z.to_N e <=? num
              end in
  let e := if ge e0 then e0 else (e0 - 1)%Z in
  let E := (e + 1023)%Z in
  if (2047 <=? E)%Z then N.shiftl 2047 52
  else
    let k := if (E <=? 0)%Z then 1074%Z else (52 - e)%Z in        (* mantissa = rne(num/den * 2^k) *)
    let mant := match k with
                | Zneg j => rne_div num (den * 2 ^ Npos j)
                | _ => rne_div (num * 2 ^ Z.to_N k) den
                end in
    if (E <=? 0)%Z then mant
    else N.shiftl (Z.to_N E) 52 + (mant - N.shiftl 1 52).

Definition lower (c : N) : N := if (65 <=? c) && (c <=? 90) then c + 32 else c.
Fixpoint digits_val (ds : bytes) (acc : N) : N :=
  match ds with [] => acc | c :: t => digits_val t (acc * 10 + (c - 48)) end.
Fixpoint span_digits (inp : bytes) : bytes * bytes :=
  match inp with
  | c :: t => if is_digit c then let '(a, b) := span_digits t in (c :: a, b) else ([], inp)
  | [] => ([], [])
  end.

(* decimal syntax of f64::from_str: [+-] ( inf | infinity | nan | digits [. digits] [(e|E) [+-] digits] ) with at
   least one digit in the mantissa *)
Definition parse_f64 (s : bytes) : option N :=
  let '(neg, body) := match s with
                      | 45 :: t => (true, t)
                      | 43 :: t => (false, t)
                      | _ => (false, s)
                      end in
  let sb := if neg then sign_bit else 0 in
  let low := map lower body in
  if bytes_eqb low (str "inf") || bytes_eqb low (str "infinity") then Some (sb + N.shiftl 2047 52)
  else if bytes_eqb low (str "nan") then Some (sb + N.shiftl 2047 52 + N.shiftl 1 51)
  else
    let '(ip, r1) := span_digits body in
    let '(fp, r2) := match r1 with 46 :: t => span_digits t | _ => ([], r1) end in
    match ip ++ fp with
    | [] => None
    | _ :: _ =>
      let ex : option Z :=
        match r2 with
        | [] => Some 0%Z
        | c :: t =>
          if (c =? 101) || (c =? 69) then
            let '(eneg, t') := match t with 45 :: u => (true, u) | 43 :: u => (false, u) | _ => (false, t) end in
            let '(ed, rest) := span_digits t' in
            match ed, rest with
            | _ :: _, [] => Some (if eneg then (- Z.of_N (digits_val ed 0))%Z else Z.of_N (digits_val ed 0))
            | _, _ => None
            end
          else None
        end in
      match ex with
      | None => None
      | Some ex =>
        let m := digits_val (ip ++ fp) 0 in
        let sc := (ex - Z.of_nat (length fp))%Z in       (* value = m * 10^sc *)
        let w := match sc with
                 | Zneg k => rn_b64_pos m (10 ^ Npos k)
                 | _ => rn_b64_pos (m * 10 ^ Z.to_N sc) 1
                 end in
        Some (sb + w)
      end
    end.

(* ---------------------------------------------------------------- text format *)
Definition text_start : bytes := str "#SHAPE".
Definition npy_magic : bytes := magic.

(* Header Display + writeln; format_spectrum with " " ; writeln *)
Definition write_text (sh : list N) (vals : list N) (p : nat) : bytes :=
  str "#SHAPE=<" ++ join [47] (map dec sh) ++ str ">" ++ [10] ++
  join [32] (map (fun v => print_fixed v p) vals) ++ [10].

(* BufRead::read_line: up to and including the first '\n' *)
Fixpoint read_line (inp : bytes) : bytes * bytes :=
  match inp with
  | c :: t => if c =? 10 then ([c], t) else let '(a, b) := read_line t in (c :: a, b)
  | [] => ([], [])
  end.
Fixpoint drop_while (f : N -> bool) (l : bytes) : bytes :=
  match l with c :: t => if f c then drop_while f t else l | [] => [] end.
Definition trim_non_numeric (l : bytes) : bytes :=
  rev (drop_while (fun c => negb (is_digit c)) (rev (drop_while (fun c => negb (is_digit c)) l))).
Fixpoint split_on (sep : N) (l : bytes) : list bytes :=
  match l with
  | [] => [[]]
  | c :: t => if c =? sep then [] :: split_on sep t
              else match split_on sep t with h :: r => (c :: h) :: r | [] => [[c]] end
  end.
(* usize::from_str: optional '+', one or more digits, no overflow *)
Definition parse_usize_str (s : bytes) : option N :=
  let body := match s with 43 :: t => t | _ => s end in
  match parse_u64 body with Some (n, []) => Some n | _ => None end.
Fixpoint all_some {A} (l : list (option A)) : option (list A) :=
  match l with
  | [] => Some []
  | Some a :: t => match all_some t with Some r => Some (a :: r) | None => None end
  | None :: _ => None
  end.
Definition parse_text_header (line : bytes) : option (list N) :=
  all_some (map parse_usize_str (split_on 47 (trim_non_numeric line))).

Definition is_ascii_ws (c : N) : bool := (c =? 32) || (c =? 9) || (c =? 10) || (c =? 12) || (c =? 13).
(* str::split_ascii_whitespace *)
Fixpoint split_ws_aux (l : bytes) (cur : bytes) : list bytes :=
  match l with
  | [] => match cur with [] => [] | _ => [rev cur] end
  | c :: t => if is_ascii_ws c then (match cur with [] => split_ws_aux t [] | _ => rev cur :: split_ws_aux t [] end)
              else split_ws_aux t (c :: cur)
  end.
Definition split_ascii_whitespace (l : bytes) : list bytes := split_ws_aux l [].

Inductive terr := TBadUtf8 | TBadHeader | TBadValue | TShapeMismatch.

Definition read_text (inp : bytes) : (list N * list N) + terr :=
  if negb (forallb (fun c => c <? 128) inp) then inr TBadUtf8 else
  let '(line, rest) := read_line inp in
  match parse_text_header line with
  | None => inr TBadHeader
  | Some sh =>
    match all_some (map parse_f64 (split_ascii_whitespace rest)) with
    | None => inr TBadValue
    | Some vals => if N.of_nat (length vals) =? nelements sh then inl (sh, vals) else inr TShapeMismatch
    end
  end.

(* ---------------------------------------------------------------- format detection (spectrum/io.rs), repaired:
   inputs shorter than the magic are "no format" instead of a slice panic *)
Inductive sformat := FNpy | FText.
Definition starts_with (p inp : bytes) : bool := match tag p inp with Some _ => true | None => false end.
Definition detect_format (inp : bytes) : option sformat :=
  match starts_with npy_magic inp, starts_with text_start inp with
  | true, false => Some FNpy
  | false, true => Some FText
  | _, _ => None
  end.

Inductive ferr := FInvalidFormat | FNpyErr (e : rerr) | FTextErr (e : terr) | FZeroAxis.
(* read::Builder::read after read_to_end (repaired: a spectrum with an axis of length zero is rejected here, before
   fold / stat / view can trip over it) *)
Definition read_spectrum (inp : bytes) : (list N * list N) + ferr :=
  let r := match detect_format inp with
           | None => inr FInvalidFormat
           | Some FNpy => match read_npy inp with inl r => inl r | inr e => inr (FNpyErr e) end
           | Some FText => match read_text inp with inl r => inl r | inr e => inr (FTextErr e) end
           end in
  match r with
  | inl (sh, vals) => if existsb (N.eqb 0) sh then inr FZeroAxis else inl (sh, vals)
  | inr e => inr e
  end.
