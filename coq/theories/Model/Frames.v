(* How the repaired BCF reader (core/src/input/genotype/reader/bcf.rs: noodles-bcf's read_lazy_record behind the Guard)
   cuts the record region of an uncompressed BCF stream into records: a record is two little-endian u32 lengths
   (l_shared, l_indiv) followed by that many bytes. The stream ends cleanly only BETWEEN records; a stream that stops
   inside the lengths or inside the two blocks is an error (before the repair, 1-3 remaining bytes - and any read error of
   kind UnexpectedEof at that point - were taken for the end of the records). What the blocks contain is not looked at here.
   Definitions only. *)
From Sfs Require Export Npy.

Close Scope string_scope. Open Scope nat_scope.

Inductive frame_res := FEnd | FErr | FRec (shared indiv rest : bytes).

(* one read_lazy_record behind the guard *)
Definition read_frame (inp : bytes) : frame_res :=
  match inp with
  | [] => FEnd
  | _ =>
    if length inp <? 8 then FErr
    else
      let ls := N.to_nat (le_word (firstn 4 inp)) in
      let li := N.to_nat (le_word (firstn 4 (skipn 4 inp))) in
      let body := skipn 8 inp in
      if length body <? ls + li then FErr
      else FRec (firstn ls body) (firstn li (skipn ls body)) (skipn (ls + li) body)
  end.

(* the read loop: the records read, or None when the stream is broken (fuel: at most one record per 8 bytes) *)
Fixpoint read_frames_fuel (fuel : nat) (inp : bytes) : option (list (bytes * bytes)) :=
  match fuel with
  | O => None
  | S f =>
    match read_frame inp with
    | FEnd => Some []
    | FErr => None
    | FRec s i rest =>
      match read_frames_fuel f rest with Some l => Some ((s, i) :: l) | None => None end
    end
  end.
Definition read_frames (inp : bytes) : option (list (bytes * bytes)) := read_frames_fuel (S (length inp)) inp.

(* how many records are read before the end or the error (what the correspondence check observes) *)
Fixpoint count_frames_fuel (fuel : nat) (inp : bytes) : nat * bool :=      (* (records read, ended cleanly) *)
  match fuel with
  | O => (0, false)
  | S f =>
    match read_frame inp with
    | FEnd => (0, true)
    | FErr => (0, false)
    | FRec _ _ rest => let '(n, ok) := count_frames_fuel f rest in (S n, ok)
    end
  end.
Definition count_frames (inp : bytes) : nat * bool := count_frames_fuel (S (length inp)) inp.

(* the writer's side: a record as it stands in the stream *)
Definition frame_bytes (r : bytes * bytes) : bytes :=
  le_bytes 4 (N.of_nat (length (fst r))) ++ le_bytes 4 (N.of_nat (length (snd r))) ++ fst r ++ snd r.
Definition frames_bytes (rs : list (bytes * bytes)) : bytes := flat_map frame_bytes rs.
Definition frame_ok (r : bytes * bytes) : Prop :=
  (N.of_nat (length (fst r)) < 2 ^ 32)%N /\ (N.of_nat (length (snd r)) < 2 ^ 32)%N.
