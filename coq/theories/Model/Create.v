(* Model of the `create` path: genotype classification (input/genotype/reader/vcf.rs, as repaired),
   sample / population maps (input/sample.rs, sample/population.rs), site reader
   (input/site/reader.rs, reader/builder.rs) and the run loop (cli/src/create/runner.rs, create.rs).
   VCF/BCF decoding (noodles) is not modelled: the model starts from decoded genotypes.
   Definitions only. *)
From Sfs Require Export Project.

Close Scope Qc_scope. Close Scope Q_scope. Open Scope nat_scope.

(* ------------------------------------------------------------------ genotypes *)
(* a decoded GT field: None = the whole field is the missing value; otherwise the list of allele
   positions (None = '.'), its length is the ploidy. Phasing is not represented: the code never
   looks at it. *)
Definition vcf_gt := option (list (option nat)).

Inductive gres := GCalled (g : nat) | GMissing | GMultiallelic | GPloidyErr.

(* From<Option<VcfGenotype>> for genotype::Result (repaired: an allele index >= 2 is
   multiallelic even when the indices sum to <= 2; a lone missing allele - the way BCF carries a GT field
   that is the missing value - is a missing genotype, as the absent field of the VCF reader is) *)
Definition classify (g : vcf_gt) : gres :=
  match g with
  | None => GMissing
  | Some [None] => GMissing
  | Some [a; b] =>
      match a, b with
      | Some a, Some b => if (a <=? 1) && (b <=? 1) then GCalled (a + b) else GMultiallelic
      | _, _ => GMissing
      end
  | Some _ => GPloidyErr
  end.

(* the classification before that last repair (F16), kept to state what was wrong *)
Definition classify_v0 (g : vcf_gt) : gres :=
  match g with
  | Some [None] => GPloidyErr
  | _ => classify g
  end.

(* ------------------------------------------------------------------ names, maps *)
Definition name := list nat.     (* bytes *)
Definition name_eqb : name -> name -> bool := list_eqb.
Definition pop := option name.   (* None = Population::Unnamed *)
Definition pop_eqb (p q : pop) : bool :=
  match p, q with
  | None, None => true
  | Some a, Some b => name_eqb a b
  | _, _ => false
  end.

Fixpoint index_of {A} (eqb : A -> A -> bool) (x : A) (l : list A) : option nat :=
  match l with
  | [] => None
  | y :: t => if eqb x y then Some 0 else option_map S (index_of eqb x t)
  end.

(* population::Map::get_or_insert on an IndexSet: id = position of first appearance *)
Definition pops_get_or_insert (pops : list pop) (p : pop) : list pop * nat :=
  match index_of pop_eqb p pops with
  | Some i => (pops, i)
  | None => (pops ++ [p], length pops)
  end.

(* IndexMap<Sample, population::Id>::insert: an existing key keeps its slot, the value is replaced *)
Definition smap := list (name * nat).
Fixpoint smap_insert (m : smap) (k : name) (v : nat) : smap :=
  match m with
  | [] => [(k, v)]
  | (k', v') :: t => if name_eqb k k' then (k', v) :: t else (k', v') :: smap_insert t k v
  end.
Fixpoint smap_get (m : smap) (k : name) : option nat :=
  match m with
  | [] => None
  | (k', v) :: t => if name_eqb k k' then Some v else smap_get t k
  end.
Definition smap_index_of (m : smap) (k : name) : option nat := index_of name_eqb k (map fst m).

(* sample::Map::from_iter *)
Definition build_map (l : list (name * pop)) : smap :=
  snd (fold_left (fun '(pops, m) '(s, p) =>
                    let '(pops', id) := pops_get_or_insert pops p in (pops', smap_insert m s id))
                 l ([], [])).

(* Map::from_all: every input sample, unnamed population *)
Definition map_from_all (cols : list name) : smap := build_map (map (fun c => (c, None)) cols).

(* population_sizes(): HashMap id -> count. Only its length and point lookups are used, never its
   iteration order. Represented by the list of distinct ids with counts. *)
Fixpoint count_id (id : nat) (vals : list nat) : nat :=
  match vals with [] => 0 | v :: t => (if v =? id then 1 else 0) + count_id id t end.
Fixpoint distinct (vals : list nat) : list nat :=
  match vals with
  | [] => []
  | v :: t => if existsb (Nat.eqb v) t then distinct t else v :: distinct t
  end.
Definition number_of_populations (m : smap) : nat := length (distinct (map snd m)).

(* Map::shape(): (0..sizes.len()).map(|id| 1 + 2 * sizes.get(id).unwrap()); None models the
   unwrap panic (an id without samples, possible only with contradictory duplicate entries) *)
Definition map_shape (m : smap) : option shape :=
  let vals := map snd m in
  fold_right (fun id acc =>
                match acc with
                | None => None
                | Some sh => if count_id id vals =? 0 then None else Some (1 + 2 * count_id id vals :: sh)
                end) (Some []) (seq 0 (number_of_populations m)).

(* ------------------------------------------------------------------ site reader *)
Inductive skipkind := SkMissing | SkMultiallelic.
Record sstate := { s_counts : list nat; s_totals : list nat; s_skipped : list (nat * skipkind);
                   s_tobuf : list nat }.

Inductive site :=
| Standard (counts : list nat)
| Projected (values : list Qc)      (* the items of the ProjectIter, weight 1 *)
| Insufficient.

Inductive site_result := SRead (s : site) | SErrPloidy.

Definition add_nth (l : list nat) (i v : nat) : list nat := set_nth l i (nth i l 0 + v).

(* one (sample column, genotype) pair of the zip in read_site; None = ploidy error *)
Definition site_step (m : smap) (st : sstate) (col : name) (g : gres) : option sstate :=
  match smap_get m col with
  | None => Some st                                   (* sample not selected: continue *)
  | Some pid =>
    match g with
    | GCalled a => Some {| s_counts := add_nth (s_counts st) pid a; s_totals := add_nth (s_totals st) pid 2;
                           s_skipped := s_skipped st; s_tobuf := s_tobuf st |}
    | GMissing => Some {| s_counts := s_counts st; s_totals := s_totals st;
                          s_skipped := s_skipped st ++ [(match smap_index_of m col with Some i => i | None => 0 end, SkMissing)];
                          s_tobuf := s_tobuf st |}
    | GMultiallelic => Some {| s_counts := s_counts st; s_totals := s_totals st;
                          s_skipped := s_skipped st ++ [(match smap_index_of m col with Some i => i | None => 0 end, SkMultiallelic)];
                          s_tobuf := s_tobuf st |}
    | GPloidyErr => None
    end
  end.

Fixpoint site_steps (m : smap) (st : sstate) (cols : list name) (gs : list gres) : option sstate :=
  match cols, gs with
  | c :: cols', g :: gs' => match site_step m st c g with
                            | Some st' => site_steps m st' cols' gs'
                            | None => None
                            end
  | _, _ => Some st                                   (* zip stops at the shorter side *)
  end.

Definition reset (st : sstate) : sstate :=
  {| s_counts := map (fun _ => 0) (s_counts st); s_totals := map (fun _ => 0) (s_totals st);
     s_skipped := []; s_tobuf := s_tobuf st |}.

(* exact / projectable fold over zip(totals, project_to) *)
Fixpoint all2 (f : nat -> nat -> bool) (a b : list nat) : bool :=
  match a, b with x :: a', y :: b' => f x y && all2 f a' b' | _, _ => true end.

(* Reader::read_site for one decoded record. [pto] = projection target counts, if any. *)
Definition read_site (m : smap) (cols : list name) (pto : option (list nat)) (st : sstate) (gs : list gres)
  : sstate * site_result :=
  let st0 := reset st in
  match site_steps m st0 cols gs with
  | None => (st0, SErrPloidy)      (* state at the moment of the error is not observable afterwards *)
  | Some st1 =>
    match pto with
    | Some to =>
      if all2 Nat.eqb (s_totals st1) to then (st1, SRead (Standard (s_counts st1)))
      else if all2 (fun total t => t <=? total) (s_totals st1) to then
        (* PartialProjection::project_unchecked: to_buf.set_zero(), then the iterator *)
        let buf0 := map (fun _ => 0) (s_tobuf st1) in
        let values := proj_iter (elements (map S to)) (s_totals st1) (s_counts st1) to (rev buf0) 0 in
        ({| s_counts := s_counts st1; s_totals := s_totals st1; s_skipped := s_skipped st1; s_tobuf := to |},
         SRead (Projected values))
      else (st1, SRead Insufficient)
    | None =>
      match s_skipped st1 with
      | [] => (st1, SRead (Standard (s_counts st1)))
      | _ :: _ => (st1, SRead Insufficient)
      end
    end
  end.

(* ------------------------------------------------------------------ builder *)
Inductive project_arg := ProjIndividuals (l : list nat) | ProjShape (sh : shape).
Definition project_arg_shape (p : project_arg) : shape :=
  match p with ProjIndividuals l => map (fun i => 2 * i + 1) l | ProjShape sh => sh end.

Inductive samples_arg := SamplesAll | SamplesList (l : list (name * pop)).

Inductive build_err :=
| EEmptySamplesMap
| EUnknownSample (s : name)
| EProjection (e : perr)
| EInconsistentSamples.             (* a sample defined more than once with different populations left a population empty *)

Record reader_cfg := { r_map : smap; r_cols : list name; r_pto : option (list nat); r_shape : shape }.

Definition build_reader (cols : list name) (samples : samples_arg) (project : option project_arg)
  : reader_cfg + build_err :=
  let m := match samples with SamplesAll => map_from_all cols | SamplesList l => build_map l end in
  match m with
  | [] => inr EEmptySamplesMap
  | _ :: _ =>
    (* Map::populations_are_nonempty (repair of the unwrap panic in Map::shape): every id has a sample *)
    match map_shape m with
    | None => inr EInconsistentSamples
    | Some from =>
      match find (fun s => negb (existsb (name_eqb s) cols)) (map fst m) with
      | Some s => inr (EUnknownSample s)
      | None =>
        match project with
        | None => inl {| r_map := m; r_cols := cols; r_pto := None; r_shape := from |}
        | Some p =>
          let to := project_arg_shape p in
          if negb (length from =? length to) then inr (EProjection (PUnequalDimensions (length from) (length to)))
          else match first_smaller 0 from to with
               | Some (d, f, t) => inr (EProjection (PInvalidProjection d f t))
               | None => match count_of_shape to with
                         | None => inr (EProjection PZero)
                         | Some pto => inl {| r_map := m; r_cols := cols; r_pto := Some pto; r_shape := to |}
                         end
               end
        end
      end
    end
  end.

(* ------------------------------------------------------------------ run loop *)
Record record := { rec_contig : name; rec_pos : nat; rec_gts : list vcf_gt }.
Inductive item := IRec (r : record) | IIoErr.         (* IIoErr: the genotype reader returned Err *)

Record rstate := { scs : list Qc; n_sites : nat; n_skipped : nat; rs : sstate }.

Inductive run_err :=
| RErrGenotype (contig : name) (pos : nat)     (* "encountered genotype error at site" (ploidy) *)
| RErrRead                                     (* reader error: corrupt / truncated record *)
| RErrStrict (contig : name) (pos : nat).

Definition add1_at (l : list Qc) (i : nat) : list Qc := set_nth l i (nth i l 0%Qc + 1)%Qc.

(* Projected::add_unchecked with weight 1.0 *)
Definition add_projected (acc : list Qc) (values : list Qc) : list Qc := zip_madd acc values 1%Qc.

Definition run_step (cfg : reader_cfg) (strict : bool) (st : rstate) (it : item) : rstate + run_err :=
  match it with
  | IIoErr => inr RErrRead
  | IRec r =>
    let '(ss, res) := read_site (r_map cfg) (r_cols cfg) (r_pto cfg) (rs st) (map classify (rec_gts r)) in
    match res with
    | SErrPloidy => inr (RErrGenotype (rec_contig r) (rec_pos r))
    | SRead (Standard counts) =>
        (* scs[&counts] += 1.0 : index panics when out of bounds; in-bounds by construction *)
        inl {| scs := add1_at (scs st) (flat (r_shape cfg) counts); n_sites := S (n_sites st);
               n_skipped := n_skipped st; rs := ss |}
    | SRead (Projected values) =>
        inl {| scs := add_projected (scs st) values; n_sites := S (n_sites st);
               n_skipped := n_skipped st; rs := ss |}
    | SRead Insufficient =>
        if strict then inr (RErrStrict (rec_contig r) (rec_pos r))
        else inl {| scs := scs st; n_sites := S (n_sites st); n_skipped := S (n_skipped st); rs := ss |}
    end
  end.

Fixpoint run_items (cfg : reader_cfg) (strict : bool) (st : rstate) (items : list item) : rstate + run_err :=
  match items with
  | [] => inl st
  | it :: rest => match run_step cfg strict st it with
                  | inl st' => run_items cfg strict st' rest
                  | inr e => inr e
                  end
  end.

Definition init_sstate (cfg : reader_cfg) : sstate :=
  let d := number_of_populations (r_map cfg) in
  {| s_counts := repeat 0 d; s_totals := repeat 0 d; s_skipped := [];
     s_tobuf := match r_pto cfg with Some to => repeat 0 (length to) | None => [] end |}.

Definition init_rstate (cfg : reader_cfg) : rstate :=
  {| scs := repeat 0%Qc (elements (r_shape cfg)); n_sites := 0; n_skipped := 0; rs := init_sstate cfg |}.

(* what `sfs create` shows: Some spectrum on stdout and exit 0, or nothing on stdout and exit 1;
   the "Skipped X/Y" summary appears iff X > 0 *)
Record create_out := { out_spectrum : option (shape * list Qc); out_summary : option (nat * nat);
                       out_error : option run_err }.

Definition create_run (cfg : reader_cfg) (strict : bool) (items : list item) : create_out :=
  match run_items cfg strict (init_rstate cfg) items with
  | inl st => {| out_spectrum := Some (r_shape cfg, scs st);
                 out_summary := if n_skipped st =? 0 then None else Some (n_skipped st, n_sites st);
                 out_error := None |}
  | inr e => {| out_spectrum := None; out_summary := None; out_error := Some e |}
  end.

(* ------------------------------------------------------------------ spec side (C01, C02) *)
(* per-population ALT count and called-chromosome total of a record, over the selected samples *)
Definition rec_counts (m : smap) (cols : list name) (d : nat) (gs : list gres) : list nat * list nat :=
  fold_left (fun '(c, t) '(col, g) =>
               match smap_get m col, g with
               | Some pid, GCalled a => (add_nth c pid a, add_nth t pid 2)
               | _, _ => (c, t)
               end) (combine cols gs) (repeat 0 d, repeat 0 d).

(* every selected sample has a complete biallelic genotype *)
Definition rec_complete (m : smap) (cols : list name) (gs : list gres) : bool :=
  forallb (fun '(col, g) => match smap_get m col, g with
                            | Some _, GCalled _ => true
                            | Some _, _ => false
                            | None, _ => true
                            end) (combine cols gs).
