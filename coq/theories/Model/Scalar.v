(* Exact scalars for spectrum values: canonical rationals Qc. Every finite f64 is a dyadic
   rational, so statements over Qc cover every finite input of the implementation (in exact
   arithmetic; rounding is bounded empirically by the correspondence check). *)
From Coq Require Export QArith Qcanon.
From Coq Require Export List.
Export ListNotations.

Definition qsum (l : list Qc) : Qc := fold_left Qcplus l 0%Qc.      (* iter().sum() *)
Definition qprod (l : list Qc) : Qc := fold_left Qcmult l 1%Qc.     (* fold(1.0, mul) *)
Definition qnat (n : nat) : Qc := Q2Qc (inject_Z (Z.of_nat n)).      (* n as f64 *)
Definition qN (n : N) : Qc := Q2Qc (inject_Z (Z.of_N n)).
Definition qhalf : Qc := Q2Qc (1 # 2).
