(* Model of core/src/spectrum/stat.rs, stat/theta.rs, stat/d.rs, spectrum/iter.rs, utils::harmonic
   and the dispatch of cli/src/stat.rs (which normalises for f2/f3/f4/fst). Values in Qc; the
   final square root of the D statistics is not a rational operation: D is modelled by its
   numerator and the radicand of its denominator (D = num / sqrt rad). Definitions only. *)
From Sfs Require Export Spectrum Project.

Close Scope Qc_scope. Close Scope Q_scope. Open Scope nat_scope.

Inductive serr := SDimErr (expected actual : nat) | SShapeErr.

(* utils::p_harmonic(n, p) = sum_{i=1}^{n-1} 1 / i^p ; harmonic = p_harmonic(n, 1) *)
Definition p_harmonic (n p : nat) : Qc := qsum (map (fun i => (1 / qnat (i ^ p))%Qc) (seq 1 (n - 1))).
Definition harmonic (n : nat) : Qc := p_harmonic n 1.

(* FrequenciesIter: index i on an axis of length n -> i / (n - 1) *)
Fixpoint freqs (idx : list nat) (sh : shape) : list Qc :=
  match idx, sh with
  | i :: idx', n :: sh' => (qnat i / qnat (n - 1))%Qc :: freqs idx' sh'
  | _, _ => []
  end.
Definition fr (fs : list Qc) (j : nat) : Qc := nth j fs 0%Qc.

(* array.iter().zip(iter_frequencies()) : values with their index, row-major *)
Definition entries (x : spectrum) : list (Qc * list nat) :=
  combine (adata x) (map (index_from_flat (ashape x)) (seq 0 (elements (ashape x)))).

(* Scs::segregating_sites: array.iter().take(n-1).skip(1).sum(), n = elements *)
Definition polymorphic {A} (l : list A) : list A := skipn 1 (firstn (length l - 1) l).
Definition segregating_sites (x : spectrum) : Qc := qsum (polymorphic (adata x)).

(* Theta estimators (1-D): n = elements - 1; sum over i = 1..n-1 of weight(i, n) * x[i] *)
Definition theta_generic (w : nat -> nat -> Qc) (x : spectrum) : Qc :=
  let n := length (adata x) - 1 in
  qsum (map (fun i => (w i n * nth i (adata x) 0)%Qc) (seq 1 (n - 1))).
Definition w_tajima (i n : nat) : Qc := (qnat (i * (n - i)) / qN (binomN n 2))%Qc.
Definition w_watterson (i n : nat) : Qc := (1 / harmonic n)%Qc.

Definition dim1 {A} (x : spectrum) (v : A) : A + serr :=
  if dimensions x =? 1 then inl v else inr (SDimErr 1 (dimensions x)).

Definition pi_unchecked (x : spectrum) : Qc := theta_generic w_tajima x.
Definition theta_w_unchecked (x : spectrum) : Qc := theta_generic w_watterson x.
Definition theta_fuli_unchecked (x : spectrum) : Qc := nth 1 (adata x) 0%Qc.
Definition stat_pi (x : spectrum) := dim1 x (pi_unchecked x).
Definition stat_theta (x : spectrum) := dim1 x (theta_w_unchecked x).

(* D statistics: (numerator, radicand); D = numerator / sqrt radicand *)
Definition d_tajima_parts (x : spectrum) : Qc * Qc :=
  let n := length (adata x) - 1 in
  let s := segregating_sites x in
  let a1 := harmonic n in
  let a2 := p_harmonic n 2 in
  let b1 := (qnat (n + 1) / qnat (3 * (n - 1)))%Qc in
  let b2 := (qnat (2 * (n ^ 2 + n + 3)) / qnat (9 * n * (n - 1)))%Qc in
  let c1 := (b1 - 1 / a1)%Qc in
  let c2 := (b2 - qnat (n + 2) / (a1 * qnat n) + a2 / (a1 * a1))%Qc in
  let e1 := (c1 / a1)%Qc in
  let e2 := (c2 / (a1 * a1 + a2))%Qc in
  ((pi_unchecked x - theta_w_unchecked x)%Qc, (e1 * s + e2 * s * (s - 1))%Qc).

(* Fu and Li: variance() returns sqrt(u s + v s^2) / a, so D = (theta_w - xi_1) * a / sqrt(u s + v s^2) *)
Definition d_fuli_parts (x : spectrum) : Qc * Qc :=
  let n := length (adata x) - 1 in
  let s := segregating_sites x in
  let a := harmonic n in
  let g := p_harmonic n 2 in
  let c := ((qnat 2 * qnat n * a - qnat (4 * (n - 1))) / qnat ((n - 1) * (n - 2)))%Qc in
  let v := (1 + (a * a) / (g + a * a) * (c - qnat (n + 1) / qnat (n - 1)))%Qc in
  let u := (a - 1 - v)%Qc in
  (((theta_w_unchecked x - theta_fuli_unchecked x) * a)%Qc, (u * s + v * (s * s))%Qc).

Definition stat_d_tajima (x : spectrum) := dim1 x (d_tajima_parts x).
Definition stat_d_fuli (x : spectrum) := dim1 x (d_fuli_parts x).

(* PiXY (2-D): all (m1, m2) row-major except the first and the last *)
Definition pixy_unchecked (x : spectrum) : Qc :=
  let n1 := nth 0 (ashape x) 0 - 1 in
  let n2 := nth 1 (ashape x) 0 - 1 in
  let cells := flat_map (fun m1 => map (fun m2 => (m1, m2)) (seq 0 (S n2))) (seq 0 (S n1)) in
  let cells := skipn 1 (firstn (length (adata x) - 1) cells) in
  (qsum (map (fun '(m1, m2) => (q_getd x [m1; m2] * qnat (m1 * (n2 - m2) + m2 * (n1 - m1)))%Qc) cells)
   / qnat (n1 * n2))%Qc.
Definition dimk {A} (k : nat) (x : spectrum) (v : A) : A + serr :=
  if dimensions x =? k then inl v else inr (SDimErr k (dimensions x)).
Definition stat_pixy (x : spectrum) := dimk 2 x (pixy_unchecked x).

(* f-statistics on a (normalised) spectrum *)
Definition f2_unchecked (x : spectrum) : Qc :=
  qsum (map (fun '(v, idx) => let fs := freqs idx (ashape x) in (v * ((fr fs 0 - fr fs 1) * (fr fs 0 - fr fs 1)))%Qc) (entries x)).
Definition f3_unchecked (x : spectrum) : Qc :=
  qsum (map (fun '(v, idx) => let fs := freqs idx (ashape x) in (v * (fr fs 0 - fr fs 1) * (fr fs 0 - fr fs 2))%Qc) (entries x)).
Definition f4_unchecked (x : spectrum) : Qc :=
  qsum (map (fun '(v, idx) => let fs := freqs idx (ashape x) in (v * (fr fs 0 - fr fs 1) * (fr fs 2 - fr fs 3))%Qc) (entries x)).

(* Hudson's Fst: ratio of summed numerators and denominators over the polymorphic entries *)
Definition fst_parts (x : spectrum) : Qc * Qc :=
  let n_i_sub := qnat (nth 0 (ashape x) 0 - 2) in
  let n_j_sub := qnat (nth 1 (ashape x) 0 - 2) in
  let terms := map (fun '(v, idx) =>
                      let fs := freqs idx (ashape x) in
                      let f_i := fr fs 0 in let f_j := fr fs 1 in
                      let g_i := (1 - f_i)%Qc in let g_j := (1 - f_j)%Qc in
                      let num := ((f_i - f_j) * (f_i - f_j) - f_i * g_i / n_i_sub - f_j * g_j / n_j_sub)%Qc in
                      let den := (f_i * g_j + f_j * g_i)%Qc in
                      ((v * num)%Qc, (v * den)%Qc)) (polymorphic (entries x)) in
  (qsum (map fst terms), qsum (map snd terms)).
Definition fst_unchecked (x : spectrum) : Qc := (fst (fst_parts x) / snd (fst_parts x))%Qc.

(* KING, R0, R1: exactly the shape 3x3 *)
Definition shape33 {A} (x : spectrum) (v : A) : A + serr :=
  if list_eqb (ashape x) [3; 3] then inl v else inr SShapeErr.
Definition g2 (x : spectrum) (i j : nat) : Qc := q_getd x [i; j].
Definition king_unchecked (x : spectrum) : Qc :=
  ((g2 x 1 1 - qnat 2 * (g2 x 0 2 + g2 x 2 0)) / (g2 x 0 1 + g2 x 1 0 + qnat 2 * g2 x 1 1 + g2 x 1 2 + g2 x 2 1))%Qc.
Definition r0_unchecked (x : spectrum) : Qc := ((g2 x 0 2 + g2 x 2 0) / g2 x 1 1)%Qc.
Definition r1_unchecked (x : spectrum) : Qc :=
  (g2 x 1 1 / qsum [g2 x 0 1; g2 x 0 2; g2 x 1 0; g2 x 1 2; g2 x 2 0; g2 x 2 1])%Qc.

(* cli/src/stat.rs: Statistic::calculate *)
Inductive statistic := SDFuLi | SDTajima | SF2 | SF3 | SF4 | SFst | SKing | SPi | SPiXY | SR0 | SR1 | SS | SSum | STheta.
Inductive sval := SVal (q : Qc) | SRatioSqrt (num rad : Qc).   (* num / sqrt rad *)

Definition lift {E} (r : Qc + E) : sval + E := match r with inl q => inl (SVal q) | inr e => inr e end.
Definition liftd {E} (r : (Qc * Qc) + E) : sval + E :=
  match r with inl (n, d) => inl (SRatioSqrt n d) | inr e => inr e end.

Definition calculate (s : statistic) (x : spectrum) : sval + serr :=
  match s with
  | SDFuLi => liftd (stat_d_fuli x)
  | SDTajima => liftd (stat_d_tajima x)
  | SF2 => lift (dimk 2 x (f2_unchecked (normalize x)))
  | SF3 => lift (dimk 3 x (f3_unchecked (normalize x)))
  | SF4 => lift (dimk 4 x (f4_unchecked (normalize x)))
  | SFst => lift (dimk 2 x (fst_unchecked (normalize x)))
  | SKing => lift (shape33 x (king_unchecked x))
  | SPi => lift (stat_pi x)
  | SPiXY => lift (stat_pixy x)
  | SR0 => lift (shape33 x (r0_unchecked x))
  | SR1 => lift (shape33 x (r1_unchecked x))
  | SS => inl (SVal (segregating_sites x))
  | SSum => inl (SVal (spectrum_sum x))
  | STheta => lift (stat_theta x)
  end.

(* ---------------------------------------------------------------- view pipeline (cli/src/view.rs) *)
Inductive marg_arg := MRemove (l : list nat) | MKeep (l : list nat).
Record view_opts := { v_marg : option marg_arg; v_project : option shape; v_mask : bool; v_normalize : bool }.
Inductive view_err := VMarg (e : merr) | VProj (e : perr).

Definition view_run (o : view_opts) (x : spectrum) : spectrum + view_err :=
  let r1 := match v_marg o with
            | None => inl x
            | Some (MRemove l) => match marginalize x l with inl y => inl y | inr e => inr (VMarg e) end
            | Some (MKeep l) => match marginalize x (keep_to_remove (dimensions x) l) with
                                | inl y => inl y | inr e => inr (VMarg e) end
            end in
  match r1 with
  | inr e => inr e
  | inl y =>
    let r2 := match v_project o with
              | None => inl y
              | Some sh => match project y sh with inl z => inl z | inr e => inr (VProj e) end
              end in
    match r2 with
    | inr e => inr e
    | inl z =>
      let z1 := if v_mask o then mask_monomorphic z else z in
      inl (if v_normalize o then normalize z1 else z1)
    end
  end.
