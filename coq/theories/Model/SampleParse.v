(* Model of the two ways a sample list reaches sample::Map (property C09): the samples file
   (core/src/input/sample.rs Map::from_str: `lines()`, `split_once('\t')`) and the inline list
   (cli/src/create.rs: clap splits the option value on ',', parse_sample_population uses `split_once('=')`).
   Names are byte lists (nat). Definitions only. *)
From Sfs Require Export Create.

(* str::split_once(sep): split at the FIRST occurrence *)
Fixpoint split_once (sep : nat) (s : name) : option (name * name) :=
  match s with
  | [] => None
  | c :: t => if c =? sep then Some ([], t)
              else match split_once sep t with Some (a, b) => Some (c :: a, b) | None => None end
  end.

(* split on every occurrence of sep (clap's value_delimiter; an empty input gives one empty piece) *)
Fixpoint split_all (sep : nat) (s : name) : list name :=
  match s with
  | [] => [[]]
  | c :: t => if c =? sep then [] :: split_all sep t
              else match split_all sep t with h :: r => (c :: h) :: r | [] => [[c]] end
  end.

(* str::lines() = split_inclusive('\n') with, for every piece that ends in '\n', that newline and then ONE preceding
   '\r' removed; a final piece without newline is returned as it is (a bare CR at the very end is kept); no piece for an
   empty remainder *)
Definition strip_cr (l : name) : name :=
  match rev l with 13 :: r => rev r | _ => l end.
Fixpoint lines_aux (s : name) (cur : name) : list name :=
  match s with
  | [] => match cur with [] => [] | _ :: _ => [rev cur] end
  | c :: t => if c =? 10 then strip_cr (rev cur) :: lines_aux t [] else lines_aux t (c :: cur)
  end.
Definition lines (s : name) : list name := lines_aux s [].

Definition entry_of (sep : nat) (piece : name) : name * pop :=
  match split_once sep piece with
  | Some (k, v) => (k, Some v)
  | None => (piece, None)
  end.

(* Map::from_str (then collected through FromIterator = build_map) *)
Definition parse_samples_file (s : name) : list (name * pop) := map (entry_of 9) (lines s).
(* --samples a=A,b,c=B *)
Definition parse_samples_inline (s : name) : list (name * pop) := map (entry_of 61) (split_all 44 s).

(* how a list is written in either syntax *)
Definition render_entry (sep : nat) (e : name * pop) : name :=
  match snd e with Some p => fst e ++ sep :: p | None => fst e end.
Fixpoint join_names (sep : nat) (l : list name) : name :=
  match l with [] => [] | [a] => a | a :: t => a ++ sep :: join_names sep t end.
Definition render_inline (l : list (name * pop)) : name := join_names 44 (map (render_entry 61) l).
Definition render_file (l : list (name * pop)) : name := flat_map (fun e => render_entry 9 e ++ [10]) l.
