(* Model of core/src/spectrum.rs (marginalize, normalize, sum), spectrum/folded.rs and the
   CLI steps of cli/src/view.rs and fold.rs that act on a spectrum. Values are Qc. Definitions only. *)
From Sfs Require Export Index ArrayM Scalar.

Close Scope Qc_scope. Close Scope Q_scope. Open Scope nat_scope.

Definition spectrum := arr Qc.
Definition q_sum_axis (x : spectrum) (a : nat) : spectrum := sum_axis 0%Qc Qcplus x a.
Definition q_getd (x : spectrum) (idx : list nat) : Qc := match get x idx with Some v => v | None => 0%Qc end.

(* ---------------------------------------------------------------- marginalize *)
Inductive merr := DuplicateAxis (a : nat) | AxisOutOfBounds (a d : nat) | TooManyAxes (n d : nat).

(* axes.iter().enumerate().find_map(|(i, axis)| axes[i+1..].contains(axis).then_some(axis)) *)
Fixpoint first_dup (l : list nat) : option nat :=
  match l with [] => None | a :: t => if existsb (Nat.eqb a) t then Some a else first_dup t end.

Fixpoint insert_sorted (a : nat) (l : list nat) : list nat :=
  match l with [] => [a] | b :: t => if a <=? b then a :: b :: t else b :: insert_sorted a t end.
Definition sort_nat (l : list nat) : list nat := fold_right insert_sorted [] l.

(* marginalize_unchecked: axes (sorted) are removed one by one, each shifted down by the number
   already removed *)
Definition marginalize_unchecked (x : spectrum) (axes : list nat) : spectrum :=
  snd (fold_left (fun '(removed, y) a => (S removed, q_sum_axis y (a - removed))) axes (0, x)).

Definition marginalize (x : spectrum) (axes : list nat) : spectrum + merr :=
  let d := dimensions x in
  match first_dup axes with
  | Some a => inr (DuplicateAxis a)
  | None =>
    match find (fun a => d <=? a) axes with
    | Some a => inr (AxisOutOfBounds a d)
    | None =>
      if d <=? length axes then inr (TooManyAxes (length axes) d)
      else inl (marginalize_unchecked x (sort_nat axes))   (* is_sorted fast path: same list *)
    end
  end.

(* cli/src/view.rs: --marginalize-keep K  ==> (0..dims).filter(|i| !keep.contains(i)) *)
Definition keep_to_remove (d : nat) (keep : list nat) : list nat :=
  filter (fun i => negb (existsb (Nat.eqb i) keep)) (seq 0 d).

(* spec side: the coordinates of idx at the positions not listed in axes, in order *)
Definition drop_axes {A} (axes : list nat) (l : list A) : list A :=
  map snd (filter (fun p => negb (existsb (Nat.eqb (fst p)) axes)) (combine (seq 0 (length l)) l)).

Fixpoint list_eqb (a b : list nat) : bool :=
  match a, b with
  | [], [] => true
  | x :: a', y :: b' => (x =? y) && list_eqb a' b'
  | _, _ => false
  end.

(* "the sums over all indices of the removed axes" *)
Definition marg_spec (x : spectrum) (axes : list nat) (idx' : list nat) : Qc :=
  qsum (map (q_getd x) (filter (fun idx => list_eqb (drop_axes axes idx) idx') (indices (ashape x)))).

(* ---------------------------------------------------------------- sum / normalize / mask *)
Definition spectrum_sum (x : spectrum) : Qc := qsum (adata x).
(* Spectrum::normalize: x /= sum  (sum = 0 gives NaN/inf in f64; outside the model: theorems
   assume sum <> 0) *)
Definition normalize (x : spectrum) : spectrum :=
  let s := spectrum_sum x in {| adata := map (fun v => (v / s)%Qc) (adata x); ashape := ashape x |}.

Fixpoint set_nth {A} (l : list A) (n : nat) (v : A) : list A :=
  match l, n with
  | [], _ => []
  | _ :: t, O => v :: t
  | h :: t, S n' => h :: set_nth t n' v
  end.
(* view --mask-monomorphic: raw[0] = 0; raw[len-1] = 0 (panics on an empty array: C17) *)
Definition mask_monomorphic (x : spectrum) : spectrum :=
  let d := set_nth (adata x) 0 0%Qc in
  {| adata := set_nth d (length d - 1) 0%Qc; ashape := ashape x |}.

(* ---------------------------------------------------------------- fold *)
(* Folded<S>: None = "lower" part *)
Definition fold_cells (x : spectrum) : list (option Qc) :=
  let sh := ashape x in
  let n := length (adata x) in                 (* spectrum.elements() = data.len() *)
  let total := lsum sh - length sh in
  let mid := total / 2 in
  let has_diagonal := (total mod 2 =? 0) in
  map (fun i =>
         let rev_i := n - 1 - i in
         let count := index_sum_from_flat sh i in
         let a := nth i (adata x) 0%Qc in
         let b := nth rev_i (adata x) 0%Qc in
         match Nat.compare count mid with
         | Lt => Some (a + b)%Qc
         | Eq => if has_diagonal then Some (qhalf * a + qhalf * b)%Qc else Some (a + b)%Qc
         | Gt => None
         end) (seq 0 n).

(* fill values of cli/src/fold.rs; NaN and inf are tags, no arithmetic is done on them *)
Inductive fillv := FillNan | FillZero | FillMinusOne | FillInf.
Inductive cell := Val (q : Qc) | Filled (f : fillv).

Definition folded_cells (x : spectrum) (f : fillv) : list cell :=
  map (fun c => match c with Some q => Val q | None => Filled f end) (fold_cells x).

(* into_spectrum(0.0) *)
Definition fold0 (x : spectrum) : spectrum :=
  {| adata := map (fun c => match c with Some q => q | None => 0%Qc end) (fold_cells x); ashape := ashape x |}.

(* allele-polarity swap: entry k of the mirrored array is entry (n_j-1-k_j)_j of x *)
Definition mirror_arr (x : spectrum) : spectrum := {| adata := rev (adata x); ashape := ashape x |}.

(* spec side, in the words of the property *)
Definition fold_spec_cell (x : spectrum) (f : fillv) (k : list nat) : cell :=
  let sh := ashape x in
  let T := lsum sh - length sh in
  let s := lsum k in
  if 2 * s <? T then Val (q_getd x k + q_getd x (mirror sh k))%Qc
  else if 2 * s =? T then Val ((q_getd x k + q_getd x (mirror sh k)) / Q2Qc 2)%Qc
  else Filled f.
