(* Model of the byte-stream interface the readers and writers are written against (std::io::BufRead /
   Read / Write as used by core/src/array/npy*.rs, spectrum/io/*.rs and input/genotype/reader/builder.rs):
   a reader delivers its bytes in chunks of arbitrary positive sizes (the "schedule") and may fail at a byte
   offset; a writer accepts at most a few bytes per call and may fail at an offset. std's read_exact and
   write_all loops are written out. The npy reader is re-expressed over this interface.
   Definitions only. *)
From Sfs Require Export Npy Text.

Close Scope string_scope. Open Scope N_scope.

(* ---------------------------------------------------------------- reader *)
(* rest: bytes not yet consumed; avail: how many of them are already in the buffer (visible to fill_buf without a
   new read of the underlying source); sched: sizes of the next reads of the source (when exhausted, the source
   returns everything that is left); fail: number of further bytes the source can deliver before it fails. *)
Record reader := { rest : bytes; avail : nat; sched : list nat; failin : option nat }.

Inductive ioerr := IoFail | IoEof.

(* BufRead::fill_buf: a non-empty buffer is returned as it is; otherwise the source is read once *)
Definition fill_buf (r : reader) : (bytes * reader) + ioerr :=
  if (0 <? avail r)%nat then inl (firstn (avail r) (rest r), r)
  else
    let want := match sched r with c :: _ => Nat.max 1 c | [] => length (rest r) end in
    let sched' := match sched r with _ :: t => t | [] => [] end in
    match failin r with
    | Some O => match rest r with
                | [] => inl ([], r)                 (* nothing left: end of file, no read error *)
                | _ :: _ => inr IoFail
                end
    | Some (S f) =>
        let n := Nat.min (Nat.min want (S f)) (length (rest r)) in
        inl (firstn n (rest r), {| rest := rest r; avail := n; sched := sched'; failin := Some (S f - n)%nat |})
    | None =>
        let n := Nat.min want (length (rest r)) in
        inl (firstn n (rest r), {| rest := rest r; avail := n; sched := sched'; failin := None |})
    end.

Definition consume (n : nat) (r : reader) : reader :=
  {| rest := skipn n (rest r); avail := (avail r - n)%nat; sched := sched r; failin := failin r |}.

(* Read::read for a BufRead: fill_buf, copy min(len, want), consume *)
Definition read_some (want : nat) (r : reader) : (bytes * reader) + ioerr :=
  match fill_buf r with
  | inr e => inr e
  | inl (buf, r') => let n := Nat.min want (length buf) in inl (firstn n buf, consume n r')
  end.

(* Read::read_exact: loop until the buffer is full; a read of 0 bytes is UnexpectedEof *)
Fixpoint read_exact_s (fuel : nat) (k : nat) (r : reader) : (bytes * reader) + ioerr :=
  match k with
  | O => inl ([], r)
  | S _ =>
    match fuel with
    | O => inr IoEof
    | S fuel' =>
      match read_some k r with
      | inr e => inr e
      | inl ([], _) => inr IoEof
      | inl (got, r') =>
        match read_exact_s fuel' (k - length got) r' with
        | inl (more, r'') => inl (got ++ more, r'')
        | inr e => inr e
        end
      end
    end
  end.

(* Read::read_to_end *)
Fixpoint read_to_end_s (fuel : nat) (r : reader) : bytes + ioerr :=
  match fuel with
  | O => inr IoEof
  | S fuel' =>
    match fill_buf r with
    | inr e => inr e
    | inl ([], _) => inl []
    | inl (buf, r') => match read_to_end_s fuel' (consume (length buf) r') with
                       | inl more => inl (buf ++ more)
                       | inr e => inr e
                       end
    end
  end.

Definition mk_reader (data : bytes) (schedule : list nat) (fail_at : option nat) : reader :=
  {| rest := data; avail := 0; sched := schedule; failin := fail_at |}.

(* ---------------------------------------------------------------- npy reader over the stream *)
Inductive srerr := SIo (e : ioerr) | SData (e : rerr).

(* TypeDescriptor::read: while !reader.fill_buf()?.is_empty() { read_exact(size) } *)
Fixpoint read_values_s (fuel : nat) (en : endian) (t : ntype) (r : reader) : (list N) + srerr :=
  match fuel with
  | O => inr (SIo IoEof)
  | S fuel' =>
    match fill_buf r with
    | inr e => inr (SIo e)
    | inl ([], _) => inl []
    | inl (_, r') =>
      match read_exact_s (S (type_size t)) (type_size t) r' with
      | inr e => inr (SIo e)
      | inl (bs, r'') => match read_values_s fuel' en t r'' with
                         | inl l => inl (decode_value en t bs :: l)
                         | inr e => inr e
                         end
      end
    end
  end.

Definition rx (k : nat) (r : reader) := read_exact_s (S k) k r.

Definition read_npy_s (r0 : reader) : (list N * list N) + srerr :=
  match rx 6 r0 with
  | inr e => inr (SIo e)
  | inl (m, r1) =>
    if negb (bytes_eqb m magic) then inr (SData EBadMagic) else
    match rx 2 r1 with
    | inr e => inr (SIo e)
    | inl (v, r2) =>
      let major := nth 0 v 0 in
      if negb ((major =? 1) || (major =? 2) || (major =? 3)) then inr (SData EBadVersion) else
      let lenbytes := if major =? 1 then 2%nat else 4%nat in
      match rx lenbytes r2 with
      | inr e => inr (SIo e)
      | inl (lb, r3) =>
        match rx (N.to_nat (le_word lb)) r3 with
        | inr e => inr (SIo e)
        | inl (dict_buf, r4) =>
          if negb (forallb (fun c => c <? 128) dict_buf) then inr (SData EBadUtf8) else
          match parse_dict dict_buf with
          | None => inr (SData EBadDict)
          | Some es =>
            match dict_of_entries es with
            | None => inr (SData EBadDict)
            | Some h =>
              if h_fortran h then inr (SData EFortranOrder) else
              match read_values_s (S (length (rest r4))) (h_endian h) (h_type h) r4 with
              | inr e => inr e
              | inl vals =>
                if N.of_nat (length vals) =? nelements (h_shape h) then inl (h_shape h, vals)
                else inr (SData EShapeMismatch)
              end
            end
          end
        end
      end
    end
  end.

(* ---------------------------------------------------------------- writer *)
(* accepted: bytes taken so far; wsched: maximum number of bytes accepted by the next calls (when exhausted:
   everything); wfail: number of further bytes before the sink fails *)
Record writer := { accepted : bytes; wsched : list nat; wfail : option nat }.

Inductive werr := WFail | WZero.

(* Write::write *)
Definition write_some (buf : bytes) (w : writer) : (nat * writer) + werr :=
  let cap := match wsched w with c :: _ => Nat.max 1 c | [] => length buf end in
  let sched' := match wsched w with _ :: t => t | [] => [] end in
  match wfail w with
  | Some O => inr WFail
  | Some (S f) =>
      let n := Nat.min (Nat.min cap (S f)) (length buf) in
      inl (n, {| accepted := accepted w ++ firstn n buf; wsched := sched'; wfail := Some (S f - n)%nat |})
  | None =>
      let n := Nat.min cap (length buf) in
      inl (n, {| accepted := accepted w ++ firstn n buf; wsched := sched'; wfail := None |})
  end.

(* Write::write_all *)
Fixpoint write_all (fuel : nat) (buf : bytes) (w : writer) : writer + werr :=
  match buf with
  | [] => inl w
  | _ :: _ =>
    match fuel with
    | O => inr WZero
    | S fuel' =>
      match write_some buf w with
      | inr e => inr e
      | inl (O, _) => inr WZero
      | inl (n, w') => write_all fuel' (skipn n buf) w'
      end
    end
  end.

Definition mk_writer (schedule : list nat) (fail_at : option nat) : writer :=
  {| accepted := []; wsched := schedule; wfail := fail_at |}.

(* npy::write_array: header pieces and every value by write_all *)
Fixpoint write_pieces (pieces : list bytes) (w : writer) : writer + werr :=
  match pieces with
  | [] => inl w
  | p :: t => match write_all (S (length p)) p w with
              | inl w' => write_pieces t w'
              | inr e => inr e
              end
  end.
Definition npy_pieces (sh vals : list N) : list bytes :=
  let d := fmt_dict sh in
  let len := 6 + 2 + 2 + N.of_nat (length d) in
  let pad_len := align - len mod align in
  [magic; [1; 0]; le_bytes 2 (N.of_nat (length d) + pad_len); d; repeat 32 (N.to_nat pad_len - 1) ++ [10]]
  ++ map (le_bytes 8) vals.

(* ---------------------------------------------------------------- container detection (genotype reader builder) *)
(* CompressionMethod::detect and Format::detect both look at ONE fill_buf of the stream *)
Inductive container := CVcf | CBcf | CBgzfVcf | CBgzfBcf | CBgzfErr.

Section Detect.
(* what flate2's MultiGzDecoder yields for the first 3 decompressed bytes of a buffer, None on error *)
Variable gunzip_prefix : bytes -> option bytes.

Definition detect_container (first_buf : bytes) : container :=
  match first_buf with
  | 31 :: 139 :: _ =>
      match gunzip_prefix first_buf with
      | Some p => if bytes_eqb p (str "BCF") then CBgzfBcf else CBgzfVcf
      | None => CBgzfErr
      end
  | _ => match first_buf with
         | 66 :: 67 :: 70 :: _ => CBcf
         | _ => CVcf
         end
  end.

(* the detection of the unrepaired code: whatever ONE fill_buf returns *)
Definition detect_stream_first_chunk (r : reader) : container + ioerr :=
  match fill_buf r with
  | inr e => inr e
  | inl (buf, _) => inl (detect_container buf)
  end.

(* Builder::build_from_reader as repaired: reader.by_ref().take(1 << 16).read_to_end(&mut prefix), then detection
   on Cursor(prefix).chain(reader), whose first fill_buf is the whole prefix *)
Definition detect_prefix_len : nat := N.to_nat 65536.
Fixpoint read_prefix (fuel n : nat) (r : reader) : (bytes * reader) + ioerr :=
  match n with
  | O => inl ([], r)
  | S _ =>
    match fuel with
    | O => inl ([], r)
    | S fuel' =>
      match read_some n r with
      | inr e => inr e
      | inl ([], r') => inl ([], r')
      | inl (got, r') => match read_prefix fuel' (n - length got) r' with
                         | inl (more, r'') => inl (got ++ more, r'')
                         | inr e => inr e
                         end
      end
    end
  end.
Definition detect_stream (r : reader) : container + ioerr :=
  match read_prefix (S detect_prefix_len) detect_prefix_len r with
  | inr e => inr e
  | inl (prefix, _) => inl (detect_container prefix)
  end.
End Detect.
