(* How a sample's GT reaches the classification from the two containers (input/genotype/reader/vcf.rs and bcf.rs, as
   repaired, with the parts of noodles-vcf 0.35 / noodles-bcf 0.32 they call written out):
   - VCF: the GT value of the sample is text; the missing value '.' (alone, or next to other FORMAT values as in ".:12")
     is "no genotype" (None); any other text goes through noodles' GT parser (genotype/parser.rs);
   - BCF: the GT value is a vector of int8 (one per allele, (index+1)<<1 | phased, 0 for a missing allele, padded with
     the end-of-vector value 0x81 up to the widest genotype of the record); noodles-bcf turns it back into GT text
     (decoder/genotypes.rs, parse_genotype_genotype_field_values) which then goes through the same GT parser.
   [hts_encode] is the layout htslib/bcftools give a GT (what a converted VCF contains). Definitions only. *)
From Sfs Require Export Create Text.

Close Scope string_scope. Close Scope Qc_scope. Close Scope Q_scope. Open Scope N_scope.

(* ---------------------------------------------------------------- noodles-vcf: Genotype::from_str *)
Definition is_gt_sep (c : N) : bool := (c =? 47) || (c =? 124).          (* '/' '|' *)

(* next_allele, repeated: a token is one character followed by everything up to the next separator *)
Fixpoint gt_tokens_aux (s : bytes) (cur : bytes) : list bytes :=
  match s with
  | [] => [rev cur]
  | c :: t => if is_gt_sep c then rev cur :: gt_tokens_aux t [c] else gt_tokens_aux t (c :: cur)
  end.
Definition gt_tokens (s : bytes) : list bytes :=
  match s with [] => [] | c :: t => gt_tokens_aux t [c] end.

(* allele::parse_position: "." or usize::from_str *)
Definition parse_position (s : bytes) : option (option nat) :=
  if bytes_eqb s [46] then Some None
  else match parse_usize_str s with Some n => Some (Some (N.to_nat n)) | None => None end.

(* parse_first_allele: an optional leading separator *)
Definition parse_first_allele (tok : bytes) : option (option nat) :=
  match tok with
  | [] => None
  | c :: t => if is_gt_sep c then parse_position t else parse_position tok
  end.
(* Allele::from_str: a separator, then the position *)
Definition parse_next_allele (tok : bytes) : option (option nat) :=
  match tok with
  | [] => None
  | c :: t => if is_gt_sep c then parse_position t else None
  end.

Definition parse_gt (s : bytes) : option (list (option nat)) :=
  match gt_tokens s with
  | [] => None                                                           (* ParseError::Empty *)
  | t0 :: ts =>
    match parse_first_allele t0, all_some (map parse_next_allele ts) with
    | Some a, Some l => Some (a :: l)
    | _, _ => None
    end
  end.

(* ---------------------------------------------------------------- the VCF reader (repaired) *)
(* outer None: the record is reported as an error *)
Definition vcf_field_gt (value : bytes) : option vcf_gt :=
  if bytes_eqb value [46] then Some None
  else match parse_gt value with Some l => Some (Some l) | None => None end.

(* a whole VCF sample against the FORMAT keys of its record (repaired reader: Sample::get(GT) on the values noodles split at
   ':'): the values are the pieces of the sample text; noodles rejects an empty value, more values than keys, duplicate
   keys and a GT key that is not the first (it also checks the types of the OTHER values against the header: not
   modelled, the generators keep them well-typed); trailing values may be dropped; the genotype is the first value when
   the first key is GT, and there is none when the record has no GT key. Outer None: the record is an error. *)
Fixpoint has_dup (l : list bytes) : bool :=
  match l with [] => false | k :: t => existsb (bytes_eqb k) t || has_dup t end.
Definition gt_key : bytes := [71; 84].                                      (* "GT" *)
Definition vcf_sample_gt (keys : list bytes) (sample : bytes) : option vcf_gt :=
  let vals := split_on 58 sample in
  if has_dup keys || existsb (bytes_eqb gt_key) (tl keys) then None
  else if (length keys <? length vals)%nat || existsb (fun v => match v with [] => true | _ :: _ => false end) vals then None
  else match keys, vals with
       | k0 :: _, v0 :: _ => if bytes_eqb k0 gt_key then vcf_field_gt v0 else Some None
       | _, _ => Some None
       end.

(* ---------------------------------------------------------------- noodles-bcf: int8 vector -> GT text *)
Definition eov : N := 129.                                               (* 0x81 *)
Fixpoint bcf_gt_string_aux (first : bool) (vals : bytes) : bytes :=
  match vals with
  | [] => []
  | v :: t =>
    if v =? eov then []
    else
      (if first then [] else [if N.odd v then 124 else 47]) ++
      (if 128 <=? v then [45]                                            (* a negative i8: "-..." is not a position *)
       else if v <? 2 then [46] else dec (v / 2 - 1)) ++
      bcf_gt_string_aux false t
  end.
Definition bcf_gt_string (vals : bytes) : bytes := bcf_gt_string_aux true vals.

(* the BCF reader: always a present value *)
Definition bcf_field_gt (vals : bytes) : option vcf_gt :=
  match parse_gt (bcf_gt_string vals) with Some l => Some (Some l) | None => None end.

(* ---------------------------------------------------------------- a genotype and its two spellings *)
(* alleles with the separator written BEFORE each of them (ignored for the first one) *)
Definition agt := list (option nat * bool).

Definition render_allele (a : option nat) : bytes := match a with None => [46] | Some k => dec (N.of_nat k) end.
Fixpoint render_gt_aux (first : bool) (g : agt) : bytes :=
  match g with
  | [] => []
  | (a, ph) :: t => (if first then [] else [if ph then 124 else 47]) ++ render_allele a ++ render_gt_aux false t
  end.
Definition render_gt (g : agt) : bytes := render_gt_aux true g.

(* htslib: (index+1)<<1 | phased, missing allele 0 | phased, padded to the width of the record *)
Definition hts_value (a : option nat * bool) : N :=
  2 * (match fst a with None => 0 | Some k => N.of_nat k + 1 end) + (if snd a then 1 else 0).
Definition hts_encode (g : agt) (width : nat) : bytes := map hts_value g ++ repeat eov (width - length g).

(* what fits an int8 vector: allele indices up to 62 *)
Definition int8_ok (g : agt) : bool := forallb (fun a => match fst a with None => true | Some k => (k <=? 62)%nat end) g.

(* observation helpers for the correspondence check *)
Definition classify_field (f : option vcf_gt) : option gres := option_map classify f.
