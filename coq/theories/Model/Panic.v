(* Panic skeleton of the spectrum commands (view, fold, stat) as repaired: every operation of the code that can
   abort - unsigned subtraction (debug: overflow check), integer division, slice/array indexing, the documented
   panicking constructors - is written as an explicit step returning [Panic site]; values (f64 arithmetic cannot
   panic) are left out. Sites are the source lines of the inventory in DESIGN.md section 3.3.
   The guard established by the readers (spectrum/io/read.rs as repaired, Array::new as repaired, the header
   parsers) is [read_ok]. Definitions only. *)
From Sfs Require Export Index.
From Coq Require Export NArith.

Inductive outcome (A : Type) : Type :=
| Done (a : A)
| Fail            (* a diagnosed error: Err(..) propagated to main, exit 1 *)
| Panic (site : N).
Arguments Done {A} a. Arguments Fail {A}. Arguments Panic {A} site.

Definition bind {A B} (o : outcome A) (f : A -> outcome B) : outcome B :=
  match o with Done a => f a | Fail => Fail | Panic s => Panic s end.
Notation "x <- o ;; k" := (bind o (fun x => k)) (at level 61, o at next level, right associativity).

(* a - b on usize *)
Definition usub (site : N) (a b : nat) : outcome nat := if b <=? a then Done (a - b) else Panic site.
(* a / b on usize *)
Definition udiv (site : N) (a b : nat) : outcome nat := if b =? 0 then Panic site else Done (a / b).
Definition umod (site : N) (a b : nat) : outcome nat := if b =? 0 then Panic site else Done (a mod b).
(* l[i] *)
Definition at_ {A} (site : N) (l : list A) (i : nat) : outcome A :=
  match nth_error l i with Some x => Done x | None => Panic site end.

Fixpoint for_each {A} (l : list A) (f : A -> outcome unit) : outcome unit :=
  match l with [] => Done tt | x :: t => _ <- f x ;; for_each t f end.

(* what the readers guarantee about an accepted spectrum: shape with at least one axis, no axis of length zero,
   as many values as the (non-overflowing) product of the shape *)
Definition read_ok (sh : shape) (ndata : nat) : Prop := sh <> [] /\ positive_shape sh /\ ndata = elements sh.

(* ---------------------------------------------------------------- Shape::index_sum_from_flat_unchecked *)
Fixpoint index_sum_skel (sh : shape) (n fl : nat) : outcome nat :=
  match sh with
  | [] => Done 0
  | v :: t => n' <- udiv 3401 n v ;;                 (* shape.rs: n /= v *)
              q <- udiv 3402 fl n' ;;                (* flat / n *)
              r <- umod 3403 fl n' ;;                (* flat %= n *)
              s <- index_sum_skel t n' r ;; Done (q + s)
  end.

(* ---------------------------------------------------------------- fold (spectrum/folded.rs) *)
Definition fold_skel (sh : shape) (ndata : nat) : outcome unit :=
  total <- usub 1701 (lsum sh) (length sh) ;;         (* folded.rs:17 sum - len *)
  for_each (seq 0 ndata) (fun i =>
    rev_i <- usub 1702 (ndata - 1) i ;;               (* (0..n).rev() position *)
    _ <- index_sum_skel sh (elements sh) i ;;
    _ <- at_ 1703 (repeat tt ndata) i ;;              (* src[i], dst[i] *)
    _ <- at_ 1704 (repeat tt ndata) rev_i ;;          (* src[rev_i] *)
    Done tt).

(* ---------------------------------------------------------------- statistics *)
Inductive statistic := SDFuLi | SDTajima | SF2 | SF3 | SF4 | SFst | SKing | SPi | SPiXY | SR0 | SR1 | SS | SSum | STheta.

(* FrequenciesIter::next: i / (n - 1) for every axis, at every index *)
Definition freqs_skel (sh : shape) : outcome unit :=
  for_each sh (fun n => _ <- usub 5201 n 1 ;; Done tt).       (* iter.rs: (n - 1) as f64 *)

Definition segsites_skel (ndata : nat) : outcome unit := _ <- usub 3841 ndata 1 ;; Done tt.   (* spectrum.rs:384 *)

Definition theta_skel (ndata : nat) (tajima : bool) : outcome unit :=
  n <- usub 1801 ndata 1 ;;                                    (* theta.rs:18 elements - 1 *)
  for_each (seq 1 (n - 1)) (fun i =>                           (* enumerate().take(n).skip(1) *)
    if tajima then _ <- usub 5401 n i ;; Done tt else Done tt). (* theta.rs: i * (n - i) *)

Definition dim_is (sh : shape) (k : nat) : bool := length sh =? k.
Fixpoint shape_eqb (a b : shape) : bool :=
  match a, b with
  | [], [] => true
  | x :: a', y :: b' => (x =? y) && shape_eqb a' b'
  | _, _ => false
  end.

Definition stat_skel (s : statistic) (sh : shape) (ndata : nat) : outcome unit :=
  match s with
  | SSum => Done tt
  | SS => segsites_skel ndata
  | SPi => if dim_is sh 1 then theta_skel ndata true else Fail
  | STheta => if dim_is sh 1 then theta_skel ndata false else Fail
  | SDTajima => if dim_is sh 1 then
                  _ <- theta_skel ndata true ;; _ <- theta_skel ndata false ;;
                  _ <- usub 6601 ndata 1 ;; segsites_skel ndata            (* d.rs: elements - 1; floats after *)
                else Fail
  | SDFuLi => if dim_is sh 1 then
                _ <- theta_skel ndata false ;;                              (* xi_1 by .get(1): no panic *)
                _ <- usub 4001 ndata 1 ;; segsites_skel ndata
              else Fail
  | SPiXY => if dim_is sh 2 then
               n1 <- usub 3001 (nth 0 sh 0) 1 ;; n2 <- usub 3002 (nth 1 sh 0) 1 ;;      (* stat.rs:30 *)
               lim <- usub 3701 ndata 1 ;;                                              (* take(elements - 1) *)
               for_each (skipn 1 (firstn lim (list_prod (seq 0 (S n1)) (seq 0 (S n2))))) (fun '(m1, m2) =>
                 _ <- usub 4101 n2 m2 ;; _ <- usub 4102 n1 m1 ;;
                 _ <- at_ 4201 (repeat tt ndata) (m1 * S n2 + m2) ;;                    (* spectrum[[m1, m2]] *)
                 Done tt)
             else Fail
  | SF2 => if dim_is sh 2 then freqs_skel sh else Fail
  | SF3 => if dim_is sh 3 then freqs_skel sh else Fail
  | SF4 => if dim_is sh 4 then freqs_skel sh else Fail
  | SFst => if dim_is sh 2 then
              _ <- freqs_skel sh ;; _ <- usub 15201 ndata 1 ;;                          (* take(elements - 1) *)
              _ <- at_ 15601 sh 0 ;; _ <- at_ 15701 sh 1 ;; Done tt                     (* shape[0], shape[1]; floats after *)
            else Fail
  | SKing | SR0 | SR1 =>
      if shape_eqb sh [3; 3] then
        for_each [(0, 1); (0, 2); (1, 0); (1, 1); (1, 2); (2, 0); (2, 1)] (fun '(i, j) =>
          _ <- at_ 20001 (repeat tt ndata) (i * 3 + j) ;; Done tt)                      (* s[[i, j]] *)
      else Fail
  end.

(* ---------------------------------------------------------------- view *)
(* marginalize_unchecked over validated, sorted axes: Axis(original - removed), then Array::sum *)
Fixpoint marg_skel (sh : shape) (axes : list nat) (removed : nat) : outcome shape :=
  match axes with
  | [] => Done sh
  | a :: t => a' <- usub 14501 a removed ;;                                             (* spectrum.rs: original.0 - removed *)
              _ <- (match sh with [] => Panic 3301 | _ => Done tt end) ;;               (* RemovedAxis::new on empty *)
              _ <- at_ 9401 sh a' ;;                                                    (* shape[axis.0] in get_axis / size_hint *)
              marg_skel (remove_axis a' sh) t (S removed)
  end.

Definition valid_axesb (d : nat) (axes : list nat) : bool :=
  let fix nodup l := match l with [] => true | a :: t => negb (existsb (Nat.eqb a) t) && nodup t end in
  nodup axes && forallb (fun a => a <? d) axes && (length axes <? d).

Fixpoint insert_sorted (a : nat) (l : list nat) : list nat :=
  match l with [] => [a] | b :: t => if a <=? b then a :: b :: t else b :: insert_sorted a t end.
Definition sort_nat (l : list nat) : list nat := fold_right insert_sorted [] l.

Definition project_skel (sh to : shape) : outcome shape :=
  if negb (forallb (fun n => 0 <? n) sh && forallb (fun n => 0 <? n) to) then Fail       (* Count::try_from_shape: checked_sub *)
  else if negb (length sh =? length to) then Fail
  else if negb (forallb (fun p => snd p <=? fst p) (combine sh to)) then Fail
  else
    _ <- usub 18401 (length to) 1 ;;                                                     (* project.rs: self.dimensions() - 1 *)
    _ <- for_each (combine sh to) (fun '(n, m) =>
           for_each (list_prod (seq 0 n) (seq 0 m)) (fun '(k, k') =>                    (* hypergeometric_pmf(n-1, k, m-1, k') *)
             if (m - 1) <? k' then Done tt
             else _ <- usub 2201 (n - 1) k ;; _ <- usub 2202 (m - 1) k' ;; Done tt)) ;;   (* size - successes, draws - observed *)
    Done to.

Definition mask_skel (ndata : nat) : outcome unit :=
  _ <- at_ 19001 (repeat tt ndata) 0 ;; last <- usub 19101 ndata 1 ;; _ <- at_ 19102 (repeat tt ndata) last ;; Done tt.

Inductive marg_arg := MRemove (l : list nat) | MKeep (l : list nat).
Record view_opts := { v_marg : option marg_arg; v_project : option shape; v_mask : bool; v_normalize : bool }.

Definition view_skel (o : view_opts) (sh : shape) (ndata : nat) : outcome unit :=
  sh1 <- match v_marg o with
         | None => Done sh
         | Some m =>
           let axes := match m with
                       | MRemove l => l
                       | MKeep l => filter (fun i => negb (existsb (Nat.eqb i) l)) (seq 0 (length sh))
                       end in
           if valid_axesb (length sh) axes then marg_skel sh (sort_nat axes) 0 else Fail
         end ;;
  sh2 <- match v_project o with None => Done sh1 | Some to => project_skel sh1 to end ;;
  _ <- (if v_mask o then mask_skel (elements sh2) else Done tt) ;;
  Done tt.
