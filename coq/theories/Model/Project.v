(* Model of core/src/utils.rs (binomial, hypergeometric_pmf as exact rationals),
   core/src/spectrum/project.rs (Projection, ProjectIter, Projected) and Spectrum::project.
   Definitions only. *)
From Sfs Require Export Spectrum.
From Coq Require Export NArith.

Close Scope Qc_scope. Close Scope Q_scope. Open Scope nat_scope.

(* exact binomial coefficient, multiplicative form: c_i = c_{i-1} * (n-k+i) / i  (division exact).
   utils::binomial computes floor(0.5 + exp(ln n! - ln k! - ln (n-k)!)) in f64: a numeric kernel that
   is compared with this value by the correspondence check, not proved. *)
Definition binomN (n k : nat) : N :=
  if n <? k then 0%N
  else fold_left (fun c i => (c * N.of_nat (n - k + i) / N.of_nat i)%N) (seq 1 k) 1%N.

(* utils::hypergeometric_pmf(size, successes, draws, observed) *)
Definition hyp (size succ draws obs : nat) : Qc :=
  if draws <? obs then 0%Qc
  else (qN (binomN succ obs) * qN (binomN (size - succ) (draws - obs)) / qN (binomN size draws))%Qc.

(* Count::try_from_shape: every length minus one, None if some length is zero *)
Fixpoint count_of_shape (sh : shape) : option (list nat) :=
  match sh with
  | [] => Some []
  | n :: t => match n, count_of_shape t with
              | S m, Some r => Some (m :: r)
              | _, _ => None
              end
  end.

Inductive perr :=
| PEmpty
| PInvalidProjection (dimension from to : nat)
| PUnequalDimensions (from to : nat)
| PZero.

Fixpoint first_smaller (i : nat) (from to : list nat) : option (nat * nat * nat) :=
  match from, to with
  | f :: from', t :: to' => if f <? t then Some (i, f, t) else first_smaller (S i) from' to'
  | _, _ => None
  end.

(* Projection::new *)
Definition projection_new (from to : list nat) : (list nat * list nat) + perr :=
  if length from =? length to then
    match first_smaller 0 from to with
    | Some (d, f, t) => inr (PInvalidProjection d f t)
    | None => inl (from, to)
    end
  else if length from =? 0 then inr PEmpty
  else inr (PUnequalDimensions (length from) (length to)).

(* Projection::from_shapes *)
Definition projection_from_shapes (from_shape to_shape : shape) : (list nat * list nat) + perr :=
  match count_of_shape from_shape, count_of_shape to_shape with
  | Some f, Some t => projection_new f t
  | _, _ => inr PZero
  end.

(* ProjectIter::project_value: zip of the four count vectors, product of pmfs (fold from 1.0) *)
Fixpoint zip4 (a b c d : list nat) : list (nat * nat * nat * nat) :=
  match a, b, c, d with
  | x :: a', y :: b', z :: c', w :: d' => (x, y, z, w) :: zip4 a' b' c' d'
  | _, _, _, _ => []
  end.
Definition project_value (pfrom from pto to : list nat) : Qc :=
  qprod (map (fun '(size, succ, draws, obs) => hyp size succ draws obs) (zip4 pfrom from pto to)).

(* ProjectIter: an odometer over `to` (last axis fastest) bounded by project_to, yielding
   project_value at every position. It is the same odometer as view::Iter's with unit "shape"
   project_to+1; coordinates are kept last-axis-first. [fuel] = number of items requested by zip. *)
Fixpoint proj_iter (fuel : nat) (pfrom from pto : list nat) (rto : list nat) (index : nat) : list Qc :=
  match fuel with
  | O => []
  | S f =>
    if index =? 0 then project_value pfrom from pto (rev rto) :: proj_iter f pfrom from pto rto 1
    else
      let '(rto', _, y) := odo (rev (map S pto)) (repeat 0 (length pto)) rto 0 in
      if y then project_value pfrom from pto (rev rto') :: proj_iter f pfrom from pto rto' (S index)
      else []
  end.

(* Projected::add_unchecked: to.iter_mut().zip(iter): *to += projected * weight *)
Fixpoint zip_madd (acc ps : list Qc) (w : Qc) : list Qc :=
  match acc, ps with
  | a :: acc', p :: ps' => (a + p * w)%Qc :: zip_madd acc' ps' w
  | _, _ => acc
  end.

(* project_unchecked(from).into_weighted(w).add_unchecked(new): to_buf is zeroed first *)
Definition project_add (pfrom pto : list nat) (acc : list Qc) (w : Qc) (from : list nat) : list Qc :=
  zip_madd acc (proj_iter (length acc) pfrom from pto (repeat 0 (length pto)) 0) w.

(* Spectrum::project *)
Definition project (x : spectrum) (to_shape : shape) : spectrum + perr :=
  match projection_from_shapes (ashape x) to_shape with
  | inr e => inr e
  | inl (pfrom, pto) =>
    let froms := map (index_from_flat (ashape x)) (seq 0 (elements (ashape x))) in
    inl {| adata := fold_left (fun acc '(w, from) => project_add pfrom pto acc w from)
                              (combine (adata x) froms) (repeat 0%Qc (elements to_shape));
           ashape := to_shape |}
  end.

(* spec side: "the sum over k of x[k] * prod_j Hypergeom(k'_j; n_j, k_j, m_j)" *)
Definition dec (sh : shape) : list nat := map pred sh.
Definition project_spec (x : spectrum) (to_shape : shape) (k' : list nat) : Qc :=
  qsum (map (fun k => (q_getd x k * project_value (dec (ashape x)) k (dec to_shape) k')%Qc)
            (indices (ashape x))).
