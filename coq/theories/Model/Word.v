(* Machine-word (usize = 64 bit) layer of the array code.
   Models, with the overflow behaviour written out, what the other model files do over unbounded [nat]:
     core/src/array.rs        Array::new           (shape.iter().try_fold(1usize, |acc, &n| acc.checked_mul(n)))
     core/src/array/shape.rs  Shape::strides       (saturating_mul since the repair of F22)
     core/src/array/shape/strides.rs Strides::flat_index / flat_index_unchecked (`flat + stride * idx`, plain usize
                              arithmetic: an overflow is a panic in a debug build and a wrap in a release build)
   Definitions only. Proofs/WordP.v shows that for every array Array::new accepts the word-level computation never
   overflows and IS the unbounded model of Index.v, which is what licenses the use of [nat] everywhere else. *)
From Coq Require Export NArith List Bool.
Export ListNotations.
Open Scope N_scope.

Definition wmax : N := 18446744073709551615.          (* usize::MAX on the 64-bit targets sfs is built for *)
Definition fits (n : N) : bool := n <=? wmax.

Definition checked_mul (a b : N) : option N := if fits (a * b) then Some (a * b) else None.
Definition checked_add (a b : N) : option N := if fits (a + b) then Some (a + b) else None.
Definition saturating_mul (a b : N) : N := if fits (a * b) then a * b else wmax.

(* try_fold(1, checked_mul): left to right, stops at the first overflow *)
Fixpoint elements_w (acc : N) (sh : list N) : option N :=
  match sh with
  | [] => Some acc
  | n :: t => match checked_mul acc n with Some a => elements_w a t | None => None end
  end.

(* Array::new(data, shape) is Ok exactly when this holds (len = data.len()) *)
Definition array_new_w (len : N) (sh : list N) : bool :=
  match elements_w 1 sh with Some n => n =? len | None => false end.

(* Shape::strides: for i in (1..len).rev() { for j < i { strides[j] = strides[j].saturating_mul(shape[i]) } }:
   strides[j] is 1 multiplied (saturating) by shape[len-1], then shape[len-2], ..., then shape[j+1] *)
Definition satprod (t : list N) : N := fold_right (fun v acc => saturating_mul acc v) 1 t.
Fixpoint strides_w (sh : list N) : list N :=
  match sh with [] => [] | _ :: t => satprod t :: strides_w t end.

(* the same loop with the plain `*=` of the code before the repair of F22: None = overflow (debug panic) *)
Definition chkprod (t : list N) : option N :=
  fold_right (fun v acc => match acc with Some a => checked_mul a v | None => None end) (Some 1) t.

(* Strides::flat_index_unchecked: fold(0, |flat, (stride, idx)| flat + stride * idx); None = overflow *)
Fixpoint dot_w (flat : N) (st idx : list N) : option N :=
  match st, idx with
  | s :: st', i :: idx' =>
      match checked_mul s i with
      | Some p => match checked_add flat p with Some f => dot_w f st' idx' | None => None end
      | None => None
      end
  | _, _ => Some flat
  end.

Fixpoint all_ltN (idx sh : list N) : bool :=
  match idx, sh with i :: idx', n :: sh' => (i <? n) && all_ltN idx' sh' | _, _ => true end.

Inductive wres := WNone | WSome (n : N) | WOverflow.

(* Strides::flat_index *)
Definition flat_index_w (st sh idx : list N) : wres :=
  if (Nat.eqb (length st) (length sh)) && (Nat.eqb (length sh) (length idx)) then
    if all_ltN idx sh then match dot_w 0 st idx with Some f => WSome f | None => WOverflow end else WNone
  else WNone.

(* unbounded reference values over N (Index.v has them over nat; WordP.v bridges) *)
Fixpoint prodN (sh : list N) : N := match sh with [] => 1 | n :: t => n * prodN t end.
Fixpoint stridesN (sh : list N) : list N := match sh with [] => [] | _ :: t => prodN t :: stridesN t end.
Fixpoint flatN (sh idx : list N) : N :=
  match sh, idx with _ :: t, i :: r => i * prodN t + flatN t r | _, _ => 0 end.

(* ---------------------------------------------------------------- Array::get_axis: where the view's data starts *)
(* before the repair of F27: `let offset = index * self.strides[axis.0]` in plain usize arithmetic *)
Definition axis_offset_unrepaired_w (sh : list N) (a : nat) (i : N) : wres :=
  if Nat.ltb a (length sh) && (i <? nth a sh 0) then
    match checked_mul i (nth a (strides_w sh) 0) with Some o => WSome o | None => WOverflow end
  else WNone.

(* repaired: index.checked_mul(stride).and_then(|offset| data.get(offset..)).unwrap_or(&[]) - the position in the data
   (of length len) at which the view starts; len itself = the view is empty *)
Definition axis_offset_w (len : N) (sh : list N) (a : nat) (i : N) : option N :=
  if Nat.ltb a (length sh) && (i <? nth a sh 0) then
    match checked_mul i (nth a (strides_w sh) 0) with Some o => Some (N.min o len) | None => Some len end
  else None.
