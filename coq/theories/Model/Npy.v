(* Model of core/src/array/npy.rs, npy/header.rs, npy/header/parse.rs: the NPY writer (v1.0, '<f8',
   C order, 64-byte alignment; as repaired for header lengths that are a multiple of 64) and the reader
   (v1/2/3 headers, the nom grammar of the header dict, 20 typed decoders, value loop, shape check).
   Bytes and words are N. f64/f32 values are their bit patterns. Definitions only. *)
From Coq Require Export NArith ZArith List Bool String Ascii.
From Sfs Require Export Index.
Export ListNotations.

Close Scope string_scope. Open Scope N_scope.

Definition bytes := list N.
Definition str (s : string) : bytes := map N_of_ascii (list_ascii_of_string s).

(* ---------------------------------------------------------------- little/big endian words *)
Fixpoint le_bytes (k : nat) (w : N) : bytes :=
  match k with O => [] | S k' => (w mod 256) :: le_bytes k' (w / 256) end.
Fixpoint le_word (bs : bytes) : N :=
  match bs with [] => 0 | b :: t => b + 256 * le_word t end.
Definition be_word (bs : bytes) : N := le_word (rev bs).

(* ---------------------------------------------------------------- decimal usize *)
Fixpoint dec_digits_fuel (fuel : nat) (n : N) (acc : bytes) : bytes :=
  match fuel with
  | O => acc
  | S f => let acc' := (48 + n mod 10) :: acc in
           if n / 10 =? 0 then acc' else dec_digits_fuel f (n / 10) acc'
  end.
(* usize::to_string *)
Definition dec (n : N) : bytes := dec_digits_fuel (S (N.to_nat (N.log2 n))) n [].

Definition is_digit (c : N) : bool := (48 <=? c) && (c <=? 57).
Definition u64_max : N := 18446744073709551615.

(* nom::character::complete::u64 : one or more digits, error on overflow *)
Fixpoint parse_digits (inp : bytes) (acc : N) (seen : bool) : option (N * bytes) :=
  match inp with
  | c :: rest => if is_digit c then
                   let acc' := acc * 10 + (c - 48) in
                   if u64_max <? acc' then None else parse_digits rest acc' true
                 else if seen then Some (acc, inp) else None
  | [] => if seen then Some (acc, []) else None
  end.
Definition parse_u64 (inp : bytes) : option (N * bytes) := parse_digits inp 0 false.

(* ---------------------------------------------------------------- parser combinators (nom) *)
Fixpoint tag (t inp : bytes) : option bytes :=
  match t, inp with
  | [], _ => Some inp
  | a :: t', b :: inp' => if a =? b then tag t' inp' else None
  | _ :: _, [] => None
  end.
Fixpoint space0 (inp : bytes) : bytes :=
  match inp with c :: rest => if (c =? 32) || (c =? 9) then space0 rest else inp | [] => [] end.
(* is_not(q): one or more bytes different from q *)
Fixpoint take_until (q : N) (inp : bytes) : bytes * bytes :=
  match inp with
  | c :: rest => if c =? q then ([], inp) else let '(a, b) := take_until q rest in (c :: a, b)
  | [] => ([], [])
  end.
Definition quote (q : N) (inp : bytes) : option (bytes * bytes) :=
  match tag [q] inp with
  | None => None
  | Some r => let '(s, r') := take_until q r in
              match s with
              | [] => None
              | _ => match tag [q] r' with Some r'' => Some (s, r'') | None => None end
              end
  end.
(* parse_string = alt of quote(single quote), quote(double quote) *)
Definition parse_string (inp : bytes) : option (bytes * bytes) :=
  match quote 39 inp with Some r => Some r | None => quote 34 inp end.
Fixpoint bytes_eqb (a b : bytes) : bool :=
  match a, b with
  | [], [] => true
  | x :: a', y :: b' => (x =? y) && bytes_eqb a' b'
  | _, _ => false
  end.
Definition target_string (t : bytes) (inp : bytes) : option bytes :=
  match parse_string inp with
  | Some (s, r) => if bytes_eqb s t then Some r else None
  | None => None
  end.
(* whitespace_sep(c) = space0 c space0 *)
Definition ws_sep (c : N) (inp : bytes) : option bytes :=
  match tag [c] (space0 inp) with Some r => Some (space0 r) | None => None end.

Inductive endian := Little | Big.
Inductive ntype := F4 | F8 | I1 | I2 | I4 | I8 | U1 | U2 | U4 | U8.
Inductive entry := EDescr (e : endian) (t : ntype) | EFortran (b : bool) | EShape (sh : list N).

Definition parse_endian (inp : bytes) : option (endian * bytes) :=
  match inp with
  | c :: r => if (c =? 124) || (c =? 60) then Some (Little, r) else if c =? 62 then Some (Big, r) else None
  | [] => None
  end.
Definition parse_type (inp : bytes) : option (ntype * bytes) :=
  match inp with
  | a :: b :: r =>
      let t := if a =? 102 then (if b =? 52 then Some F4 else if b =? 56 then Some F8 else None)
               else if a =? 117 then (if b =? 49 then Some U1 else if b =? 50 then Some U2 else if b =? 52 then Some U4 else if b =? 56 then Some U8 else None)
               else if a =? 105 then (if b =? 49 then Some I1 else if b =? 50 then Some I2 else if b =? 52 then Some I4 else if b =? 56 then Some I8 else None)
               else None in
      match t with Some t => Some (t, r) | None => None end
  | _ => None
  end.
(* parse_string.and_then(all_consuming(parse_type_descriptor)) *)
Definition parse_descr_value (inp : bytes) : option (endian * ntype * bytes) :=
  match parse_string inp with
  | Some (s, r) => match parse_endian s with
                   | Some (e, s') => match parse_type s' with
                                     | Some (t, []) => Some (e, t, r)
                                     | _ => None
                                     end
                   | None => None
                   end
  | None => None
  end.
Definition parse_bool (inp : bytes) : option (bool * bytes) :=
  match tag (str "True") inp with
  | Some r => Some (true, r)
  | None => match tag (str "False") inp with Some r => Some (false, r) | None => None end
  end.

(* separated_list1(shape_sep, parse_usize): after the first element, repeat (sep elem); a sep that is
   not followed by an element is not consumed *)
Fixpoint usize_list_rest (fuel : nat) (inp : bytes) : list N * bytes :=
  match fuel with
  | O => ([], inp)
  | S f => match ws_sep 44 inp with
           | Some r => match parse_u64 r with
                       | Some (n, r') => let '(l, r'') := usize_list_rest f r' in (n :: l, r'')
                       | None => ([], inp)
                       end
           | None => ([], inp)
           end
  end.
(* separated_list1_opt = terminated(separated_list1(sep, f), opt(sep)) *)
Definition parse_usize_sequence (inp : bytes) : option (list N * bytes) :=
  match parse_u64 inp with
  | Some (n, r) => let '(l, r') := usize_list_rest (length r) r in
                   Some (n :: l, match ws_sep 44 r' with Some r'' => r'' | None => r' end)
  | None => None
  end.
Definition parse_shape (inp : bytes) : option (list N * bytes) :=
  match tag [40] inp with
  | Some r => match parse_usize_sequence r with
              | Some (l, r') => match tag [41] r' with Some r'' => Some (l, r'') | None => None end
              | None => None
              end
  | None => None
  end.

Definition parse_entry (inp : bytes) : option (entry * bytes) :=
  (* alt((parse_descr_entry, parse_fortran_order_entry, parse_shape_entry)) *)
  let descr := match target_string (str "descr") inp with
               | Some r => match ws_sep 58 r with
                           | Some r' => match parse_descr_value r' with
                                        | Some (e, t, r'') => Some (EDescr e t, r'')
                                        | None => None
                                        end
                           | None => None
                           end
               | None => None
               end in
  match descr with
  | Some x => Some x
  | None =>
    let fortran := match target_string (str "fortran_order") inp with
                   | Some r => match ws_sep 58 r with
                               | Some r' => match parse_bool r' with Some (b, r'') => Some (EFortran b, r'') | None => None end
                               | None => None
                               end
                   | None => None
                   end in
    match fortran with
    | Some x => Some x
    | None =>
      match target_string (str "shape") inp with
      | Some r => match ws_sep 58 r with
                  | Some r' => match parse_shape r' with Some (l, r'') => Some (EShape l, r'') | None => None end
                  | None => None
                  end
      | None => None
      end
    end
  end.

Fixpoint entry_list_rest (fuel : nat) (inp : bytes) : list entry * bytes :=
  match fuel with
  | O => ([], inp)
  | S f => match ws_sep 44 inp with
           | Some r => match parse_entry r with
                       | Some (e, r') => let '(l, r'') := entry_list_rest f r' in (e :: l, r'')
                       | None => ([], inp)
                       end
           | None => ([], inp)
           end
  end.

(* parse_dict; what follows the closing brace is ignored *)
Definition parse_dict (inp : bytes) : option (list entry) :=
  match tag [123] inp with
  | Some r =>
    match parse_entry (space0 r) with
    | Some (e, r') =>
      let '(l, r'') := entry_list_rest (length r') r' in
      let r3 := match ws_sep 44 r'' with Some x => x | None => r'' end in
      match tag [125] (space0 r3) with Some _ => Some (e :: l) | None => None end
    | None => None
    end
  | None => None
  end.

Record header_dict := { h_endian : endian; h_type : ntype; h_fortran : bool; h_shape : list N }.

(* HeaderDict::from_str: later entries override earlier ones; all three must be present *)
Definition dict_of_entries (es : list entry) : option header_dict :=
  let step := fun (acc : option (endian * ntype) * option bool * option (list N)) e =>
                let '(d, f, s) := acc in
                match e with
                | EDescr en t => (Some (en, t), f, s)
                | EFortran b => (d, Some b, s)
                | EShape sh => (d, f, Some sh)
                end in
  match fold_left step es (None, None, None) with
  | (Some (en, t), Some f, Some s) => Some {| h_endian := en; h_type := t; h_fortran := f; h_shape := s |}
  | _ => None
  end.

(* ---------------------------------------------------------------- number conversion (`as f64`) *)
Definition type_size (t : ntype) : nat :=
  match t with F4 => 4 | F8 => 8 | I1 => 1 | I2 => 2 | I4 => 4 | I8 => 8 | U1 => 1 | U2 => 2 | U4 => 4 | U8 => 8 end%nat.

(* binary64 bits of an integer, round to nearest, ties to even *)
Definition f64_of_N_bits (m : N) : N :=
  if m =? 0 then 0 else
  let e := N.log2 m in
  if e <=? 52 then N.shiftl (e + 1023) 52 + (N.shiftl m (52 - e) - N.shiftl 1 52)
  else
    let sh := e - 52 in
    let q := N.shiftr m sh in
    let r := m - N.shiftl q sh in
    let half := N.shiftl 1 (sh - 1) in
    let q' := if (half <? r) || ((half =? r) && N.odd q) then q + 1 else q in
    (* q' may be 2^53: adding it to the exponent field carries correctly *)
    N.shiftl (e + 1023) 52 + (q' - N.shiftl 1 52).
Definition sign_bit : N := N.shiftl 1 63.
Definition f64_of_Z_bits (z : Z) : N :=
  match z with
  | Z0 => 0
  | Zpos p => f64_of_N_bits (Npos p)
  | Zneg p => sign_bit + f64_of_N_bits (Npos p)
  end.
Definition to_signed (k : nat) (w : N) : Z :=
  let m := N.shiftl 1 (8 * N.of_nat k) in
  if w <? m / 2 then Z.of_N w else (Z.of_N w - Z.of_N m)%Z.

(* f32 bits -> f64 bits (exact widening; NaN keeps sign and payload, quiet bit set) *)
Definition f64_of_f32_bits (w : N) : N :=
  let s := N.shiftr w 31 in
  let e := N.land (N.shiftr w 23) 255 in
  let m := N.land w 8388607 in
  let sb := N.shiftl s 63 in
  if e =? 255 then
    (if m =? 0 then sb + N.shiftl 2047 52
     else sb + N.shiftl 2047 52 + N.lor (N.shiftl m 29) (N.shiftl 1 51))
  else if e =? 0 then
    (if m =? 0 then sb
     else let l := N.log2 m in   (* subnormal: value m * 2^-149 = 1.xxx * 2^(l-149) *)
          sb + N.shiftl (l + 1023 - 149) 52 + (N.shiftl m (52 - l) - N.shiftl 1 52))
  else sb + N.shiftl (e + 896) 52 + N.shiftl m 29.

(* the 20 decoders of TypeDescriptor::get_read_fn *)
Definition decode_value (en : endian) (t : ntype) (bs : bytes) : N :=
  let w := match en with Little => le_word bs | Big => be_word bs end in
  match t with
  | F8 => w
  | F4 => f64_of_f32_bits w
  | U1 | U2 | U4 | U8 => f64_of_N_bits w
  | I1 => f64_of_Z_bits (to_signed 1 w)
  | I2 => f64_of_Z_bits (to_signed 2 w)
  | I4 => f64_of_Z_bits (to_signed 4 w)
  | I8 => f64_of_Z_bits (to_signed 8 w)
  end.

(* ---------------------------------------------------------------- reader *)
Inductive rerr :=
| EShortRead        (* read_exact hit the end of the input *)
| EBadMagic | EBadVersion | EBadUtf8 | EBadDict | EFortranOrder | EShapeMismatch.

Definition read_exact (k : nat) (inp : bytes) : option (bytes * bytes) :=
  if (k <=? length inp)%nat then Some (firstn k inp, skipn k inp) else None.

Definition magic : bytes := [147; 78; 85; 77; 80; 89].

(* TypeDescriptor::read: while !fill_buf().is_empty() { read_exact(size) } *)
Fixpoint read_values (fuel : nat) (en : endian) (t : ntype) (inp : bytes) : option (list N) :=
  match inp with
  | [] => Some []
  | _ :: _ =>
    match fuel with
    | O => None
    | S f => match read_exact (type_size t) inp with
             | Some (bs, rest) => match read_values f en t rest with
                                  | Some l => Some (decode_value en t bs :: l)
                                  | None => None
                                  end
             | None => None
             end
    end
  end.

Definition nelements (sh : list N) : N := fold_right N.mul 1 sh.

Definition read_npy (inp : bytes) : (list N * list N) + rerr :=
  match read_exact 6 inp with
  | None => inr EShortRead
  | Some (m, r1) =>
    if negb (bytes_eqb m magic) then inr EBadMagic else
    match read_exact 2 r1 with
    | None => inr EShortRead
    | Some (v, r2) =>
      let major := nth 0 v 0 in
      if negb ((major =? 1) || (major =? 2) || (major =? 3)) then inr EBadVersion else
      let lenbytes := if major =? 1 then 2%nat else 4%nat in
      match read_exact lenbytes r2 with
      | None => inr EShortRead
      | Some (lb, r3) =>
        match read_exact (N.to_nat (le_word lb)) r3 with
        | None => inr EShortRead
        | Some (dict_buf, r4) =>
          if negb (forallb (fun c => c <? 128) dict_buf) then inr EBadUtf8 else
          match parse_dict dict_buf with
          | None => inr EBadDict
          | Some es =>
            match dict_of_entries es with
            | None => inr EBadDict
            | Some h =>
              if h_fortran h then inr EFortranOrder else
              match read_values (S (length r4)) (h_endian h) (h_type h) r4 with
              | None => inr EShortRead
              | Some vals =>
                if N.of_nat (length vals) =? nelements (h_shape h) then inl (h_shape h, vals)
                else inr EShapeMismatch
              end
            end
          end
        end
      end
    end
  end.

(* ---------------------------------------------------------------- writer *)
Fixpoint join (sep : bytes) (l : list bytes) : bytes :=
  match l with [] => [] | [a] => a | a :: t => a ++ sep ++ join sep t end.

(* HeaderDict Display with descr '<f8', fortran_order False *)
Definition fmt_dict (sh : list N) : bytes :=
  str "{'descr': '<f8', 'fortran_order': False, 'shape': (" ++ join (str ", ") (map dec sh) ++ str ",), }".

Definition align : N := 64.

(* Header::write (version 1.0). Repaired: the padding always holds at least the newline. *)
Definition write_header (sh : list N) : bytes :=
  let d := fmt_dict sh in
  let len := 6 + 2 + 2 + N.of_nat (length d) in
  let pad_len := align - len mod align in
  let header_len := N.of_nat (length d) + pad_len in
  magic ++ [1; 0] ++ le_bytes 2 header_len ++ d ++ repeat 32 (N.to_nat pad_len - 1) ++ [10].

Definition write_npy (sh : list N) (vals : list N) : bytes :=
  write_header sh ++ flat_map (le_bytes 8) vals.

(* the header length written into the 2-byte field; Header::write (repaired) refuses, before writing anything, a header
   whose length does not fit it (thousands of axes) *)
Definition header_len (sh : list N) : N :=
  let d := N.of_nat (length (fmt_dict sh)) in d + (align - (6 + 2 + 2 + d) mod align).
Definition write_npy_checked (sh : list N) (vals : list N) : option bytes :=
  if header_len sh <? 65536 then Some (write_npy sh vals) else None.
