(* Property C14 - statistics are invariant under the transformations that must not matter. *)
From Sfs Require Import Index ArrayM Scalar Spectrum Project Create Stat IndexP ArrayP MargP FoldP StatDefP StatInvP ViewP CreateP CreateSpecP CreateRelP.

Close Scope Qc_scope. Close Scope Q_scope. Open Scope nat_scope.

(* f3(A;B,C) = (f2(AB) + f2(AC) - f2(BC)) / 2 on the two-population marginals *)
Theorem C14_f3_from_f2 : forall x,
  wf x -> dimensions x = 3 -> all_ge 2 (ashape x) ->
  f3_unchecked x = ((f2_unchecked (q_sum_axis x 2) + f2_unchecked (q_sum_axis x 1) - f2_unchecked (q_sum_axis x 0)) / qnat 2)%Qc.
Proof. exact (@f3_as_f2). Qed.
Print Assumptions C14_f3_from_f2.

(* f4(A,B;C,D) = (f2(AD) + f2(BC) - f2(AC) - f2(BD)) / 2 *)
Theorem C14_f4_from_f2 : forall x,
  wf x -> dimensions x = 4 -> all_ge 2 (ashape x) ->
  f4_unchecked x =
  ((f2_unchecked (q_sum_axis (q_sum_axis x 2) 1) + f2_unchecked (q_sum_axis (q_sum_axis x 3) 0)
    - f2_unchecked (q_sum_axis (q_sum_axis x 3) 1) - f2_unchecked (q_sum_axis (q_sum_axis x 2) 0)) / qnat 2)%Qc.
Proof. exact (@f4_as_f2). Qed.
Print Assumptions C14_f4_from_f2.

(* so the same holds for what `stat` prints *)
Theorem C14_normalize_commutes_with_marginalize : forall x a,
  wf x -> positive_shape (ashape x) -> a < dimensions x -> 1 < dimensions x ->
  normalize (q_sum_axis x a) = q_sum_axis (normalize x) a.
Proof. exact (@normalize_sum_axis). Qed.
Print Assumptions C14_normalize_commutes_with_marginalize.

(* the identity at the level of Statistic::calculate *)
Theorem C14_f3_from_f2_as_printed : forall x v,
  wf x -> dimensions x = 3 -> all_ge 2 (ashape x) -> calculate SF3 x = inl (SVal v) ->
  exists a b c, calculate SF2 (q_sum_axis x 2) = inl (SVal a) /\ calculate SF2 (q_sum_axis x 1) = inl (SVal b) /\
                calculate SF2 (q_sum_axis x 0) = inl (SVal c) /\ v = ((a + b - c) / qnat 2)%Qc.
Proof. exact (@f3_as_f2_calc). Qed.
Print Assumptions C14_f3_from_f2_as_printed.

(* folding with fill 0 leaves S unchanged *)
Theorem C14_fold_S : forall x,
  wf x -> positive_shape (ashape x) -> segregating_sites (fold0 x) = segregating_sites x.
Proof. exact (@fold_S). Qed.
Print Assumptions C14_fold_S.

(* ... pi *)
Theorem C14_fold_pi : forall x,
  wf x -> dimensions x = 1 -> all_ge 2 (ashape x) -> pi_unchecked (fold0 x) = pi_unchecked x.
Proof. exact (@fold_pi). Qed.
Print Assumptions C14_fold_pi.

(* ... Watterson's theta *)
Theorem C14_fold_theta : forall x,
  wf x -> dimensions x = 1 -> all_ge 2 (ashape x) -> theta_w_unchecked (fold0 x) = theta_w_unchecked x.
Proof. exact (@fold_theta). Qed.
Print Assumptions C14_fold_theta.

(* ... Tajima's D (numerator and radicand) *)
Theorem C14_fold_tajima_d : forall x,
  wf x -> dimensions x = 1 -> all_ge 2 (ashape x) -> d_tajima_parts (fold0 x) = d_tajima_parts x.
Proof. exact (@fold_d_tajima). Qed.
Print Assumptions C14_fold_tajima_d.

(* ... pi_xy *)
Theorem C14_fold_pixy : forall x,
  wf x -> dimensions x = 2 -> all_ge 2 (ashape x) -> pixy_unchecked (fold0 x) = pixy_unchecked x.
Proof. exact (@fold_pixy). Qed.
Print Assumptions C14_fold_pixy.

(* ... f2 *)
Theorem C14_fold_f2 : forall x,
  wf x -> dimensions x = 2 -> all_ge 2 (ashape x) -> f2_unchecked (fold0 x) = f2_unchecked x.
Proof. exact (@fold_f2). Qed.
Print Assumptions C14_fold_f2.

(* ... f3 *)
Theorem C14_fold_f3 : forall x,
  wf x -> dimensions x = 3 -> all_ge 2 (ashape x) -> f3_unchecked (fold0 x) = f3_unchecked x.
Proof. exact (@fold_f3). Qed.
Print Assumptions C14_fold_f3.

(* ... f4 *)
Theorem C14_fold_f4 : forall x,
  wf x -> dimensions x = 4 -> all_ge 2 (ashape x) -> f4_unchecked (fold0 x) = f4_unchecked x.
Proof. exact (@fold_f4). Qed.
Print Assumptions C14_fold_f4.

(* ... Fst (numerator and denominator sums) *)
Theorem C14_fold_fst : forall x,
  wf x -> dimensions x = 2 -> all_ge 3 (ashape x) -> fst_parts (fold0 x) = fst_parts x.
Proof. exact (@fold_fst). Qed.
Print Assumptions C14_fold_fst.

(* ... KING, R0, R1 *)
Theorem C14_fold_king_r0_r1 : forall x,
  wf x -> ashape x = [3; 3] ->
  king_unchecked (fold0 x) = king_unchecked x /\ r0_unchecked (fold0 x) = r0_unchecked x /\ r1_unchecked (fold0 x) = r1_unchecked x.
Proof. exact (@fold_king_r0_r1). Qed.
Print Assumptions C14_fold_king_r0_r1.

(* normalisation and folding commute *)
Theorem C14_fold_commutes_with_normalize : forall x,
  wf x -> positive_shape (ashape x) -> normalize (fold0 x) = fold0 (normalize x).
Proof. exact (@fold_normalize). Qed.
Print Assumptions C14_fold_commutes_with_normalize.

(* the two monomorphic entries do not matter: S *)
Theorem C14_monomorphic_S : forall x y,
  same_polymorphic x y -> segregating_sites x = segregating_sites y.
Proof. exact (@mono_S). Qed.
Print Assumptions C14_monomorphic_S.

(* ... pi, theta, D *)
Theorem C14_monomorphic_pi_theta_D : forall x y,
  same_polymorphic x y ->
  pi_unchecked x = pi_unchecked y /\ theta_w_unchecked x = theta_w_unchecked y /\
  d_tajima_parts x = d_tajima_parts y /\ d_fuli_parts x = d_fuli_parts y.
Proof. exact (@mono_pi_theta). Qed.
Print Assumptions C14_monomorphic_pi_theta_D.

(* ... pi_xy *)
Theorem C14_monomorphic_pixy : forall x y,
  wf x -> wf y -> dimensions x = 2 -> all_ge 2 (ashape x) -> same_polymorphic x y ->
  pixy_unchecked x = pixy_unchecked y.
Proof. exact (@mono_pixy). Qed.
Print Assumptions C14_monomorphic_pixy.

(* ... Fst *)
Theorem C14_monomorphic_fst : forall x y,
  wf x -> wf y -> dimensions x = 2 -> all_ge 3 (ashape x) -> same_polymorphic x y ->
  spectrum_sum x <> 0%Qc -> spectrum_sum y <> 0%Qc ->
  fst_unchecked (normalize x) = fst_unchecked (normalize y).
Proof. exact (@mono_fst). Qed.
Print Assumptions C14_monomorphic_fst.

(* ... KING, R0, R1 *)
Theorem C14_monomorphic_king_r0_r1 : forall x y,
  wf x -> wf y -> ashape x = [3; 3] -> same_polymorphic x y ->
  king_unchecked x = king_unchecked y /\ r0_unchecked x = r0_unchecked y /\ r1_unchecked x = r1_unchecked y.
Proof. exact (@mono_king_r0_r1). Qed.
Print Assumptions C14_monomorphic_king_r0_r1.

(* transposition = swapping the two populations *)
Theorem C14_swap_populations : forall x,
  wf x -> dimensions x = 2 -> wf (transpose2 x) /\
  forall i j, i < nth 0 (ashape x) 0 -> j < nth 1 (ashape x) 0 -> q_getd (transpose2 x) [j; i] = q_getd x [i; j].
Proof. exact (@transpose2_wf). Qed.
Print Assumptions C14_swap_populations.

(* f2 is symmetric *)
Theorem C14_swap_f2 : forall x,
  wf x -> dimensions x = 2 -> all_ge 2 (ashape x) -> f2_unchecked (transpose2 x) = f2_unchecked x.
Proof. exact (@swap_f2). Qed.
Print Assumptions C14_swap_f2.

(* Fst is symmetric *)
Theorem C14_swap_fst : forall x,
  wf x -> dimensions x = 2 -> all_ge 3 (ashape x) ->
  fst_parts (transpose2 x) = fst_parts x.
Proof. exact (@swap_fst). Qed.
Print Assumptions C14_swap_fst.

(* pi_xy is symmetric *)
Theorem C14_swap_pixy : forall x,
  wf x -> dimensions x = 2 -> all_ge 2 (ashape x) -> pixy_unchecked (transpose2 x) = pixy_unchecked x.
Proof. exact (@swap_pixy). Qed.
Print Assumptions C14_swap_pixy.

(* KING, R0, R1 are symmetric *)
Theorem C14_swap_king_r0_r1 : forall x,
  wf x -> ashape x = [3; 3] ->
  king_unchecked (transpose2 x) = king_unchecked x /\ r0_unchecked (transpose2 x) = r0_unchecked x /\
  r1_unchecked (transpose2 x) = r1_unchecked x.
Proof. exact (@swap_king_r0_r1). Qed.
Print Assumptions C14_swap_king_r0_r1.

(* f2, f3, f4, Fst, KING, R0, R1 unchanged by a positive factor *)
Theorem C14_scale_invariant : forall c x s,
  (0 < c)%Qc -> spectrum_sum x <> 0%Qc ->
  In s [SF2; SF3; SF4; SFst; SKing; SR0; SR1] -> calculate s (scale c x) = calculate s x.
Proof. exact (@scale_degree0). Qed.
Print Assumptions C14_scale_invariant.

(* sum, S, pi, pi_xy, theta scale by the factor *)
Theorem C14_scale_linear : forall c x s v,
  (0 < c)%Qc -> In s [SSum; SS; SPi; SPiXY; STheta] ->
  calculate s x = inl (SVal v) -> calculate s (scale c x) = inl (SVal (c * v)%Qc).
Proof. exact (@scale_degree1). Qed.
Print Assumptions C14_scale_linear.

