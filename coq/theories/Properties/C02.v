(* Property C02 - create --project: hypergeometric down-sampling of every covered site. *)
From Sfs Require Import Index ArrayM Scalar Spectrum Project Create SampleParse Npy Text Container IndexP ArrayP BinomP ProjectP CreateP CreateSpecP SampleParseP SampleParseGenP ContainerP SampleFieldP Frames FramesP.
From Coq Require Import Permutation.
Close Scope string_scope.

Close Scope Qc_scope. Close Scope Q_scope. Open Scope nat_scope.

(* entry k = sum over covered records (t_j >= m_j for all j) of prod_j Hypergeom(k_j; t_j, a_j, m_j); uncovered records add nothing; the exact-coverage branch agrees with the formula *)
Theorem C02_create_project_spec : forall cfg to items,
  cfg_wf cfg -> r_pto cfg = Some to -> Forall (no_selected_ploidy cfg) items ->
  exists st, run_items cfg false (init_rstate cfg) items = inl st /\
  forall k, inb (map S to) k = true ->
    nth (flat (map S to) k) (scs st) 0%Qc =
    qsum (map (fun it =>
                 let ct := rec_counts (r_map cfg) (r_cols cfg) (d_of cfg) (item_gts it) in
                 if covered to (snd ct) then project_value (snd ct) (fst ct) to k else 0%Qc) items).
Proof. exact (@create_project_spec). Qed.
Print Assumptions C02_create_project_spec.

(* the per-site iterator visits the target index space in row-major order *)
Theorem C02_iterator_enumerates_target : forall pfrom from pto,
  proj_iter (elements (map S pto)) pfrom from pto (repeat 0 (length pto)) 0 =
  map (project_value pfrom from pto) (indices (map S pto)).
Proof. exact (@proj_iter_spec). Qed.
Print Assumptions C02_iterator_enumerates_target.

(* --project-individuals i = --project-shape 2i+1 *)
Theorem C02_individuals_is_shape : forall cols samples l,
  build_reader cols samples (Some (ProjIndividuals l)) = build_reader cols samples (Some (ProjShape (map (fun i => 2 * i + 1) l))).
Proof. exact (@build_reader_individuals). Qed.
Print Assumptions C02_individuals_is_shape.

(* each covered record has total weight one *)
Theorem C02_weights_sum_to_one : forall pfrom from pto,
  length pfrom = length from -> length from = length pto ->
  Forall2 le from pfrom -> Forall2 le pto pfrom ->
  qsum (map (project_value pfrom from pto) (indices (map S pto))) = 1%Qc.
Proof. exact (@project_value_sum_one). Qed.
Print Assumptions C02_weights_sum_to_one.

