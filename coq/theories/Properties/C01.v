(* Property C01 - create counts every complete site once at its per-population ALT index. *)
From Sfs Require Import Index ArrayM Scalar Spectrum Project Create SampleParse Npy Text Container IndexP ArrayP BinomP ProjectP CreateP CreateSpecP SampleParseP SampleParseGenP ContainerP SampleFieldP Frames FramesP.
From Coq Require Import Permutation.
Close Scope string_scope.

Close Scope Qc_scope. Close Scope Q_scope. Open Scope nat_scope.

(* entry k = number of records complete for every selected sample whose per-population ALT counts are k; incomplete records contribute nothing *)
Theorem C01_create_counts : forall cfg items,
  cfg_wf cfg -> r_pto cfg = None -> Forall (no_selected_ploidy cfg) items ->
  exists st, run_items cfg false (init_rstate cfg) items = inl st /\
  forall k, inb (r_shape cfg) k = true ->
    nth (flat (r_shape cfg) k) (scs st) 0%Qc =
    qnat (length (filter (fun it => rec_complete (r_map cfg) (r_cols cfg) (item_gts it) &&
                                     list_eqb (fst (rec_counts (r_map cfg) (r_cols cfg) (d_of cfg) (item_gts it))) k) items)).
Proof. exact (@create_counts). Qed.
Print Assumptions C01_create_counts.

(* shape (2 n_1 + 1, ..., 2 n_d + 1) *)
Theorem C01_shape : forall l,
  NoDup (map fst l) -> map_shape (build_map l) = Some (map (fun p => 1 + 2 * label_count l p) (labels l)).
Proof. exact (@map_shape_spec). Qed.
Print Assumptions C01_shape.

(* samples that were not selected never influence the result (value and error status) *)
Theorem C01_unselected_never_influence : forall m cols pto st gs gs',
  length gs = length gs' ->
  (forall i, smap_get m (nth i cols []) <> None -> nth i gs GMissing = nth i gs' GMissing) ->
  snd (read_site m cols pto st gs) = snd (read_site m cols pto st gs').
Proof. exact (@read_site_unselected_irrelevant). Qed.
Print Assumptions C01_unselected_never_influence.

(* values are counts: total = records - skipped *)
Theorem C01_mass_is_counted_records : forall cfg strict items st,
  cfg_wf cfg -> run_items cfg strict (init_rstate cfg) items = inl st ->
  (qsum (scs st) + qnat (n_skipped st))%Qc = qnat (n_sites st) /\ n_sites st = length items /\
  length (scs st) = elements (r_shape cfg).
Proof. exact (@run_conservation). Qed.
Print Assumptions C01_mass_is_counted_records.

(* extra FORMAT fields: a sample's genotype is its GT value; the other values of the sample (present, missing, dropped) never influence it *)
Open Scope N_scope.
Theorem C01_genotype_is_the_gt_value_only : forall keys gt others others',
  keys_ok keys -> value_ok gt -> Forall value_ok others -> Forall value_ok others' ->
  (length others < length keys)%nat -> (length others' < length keys)%nat ->
  vcf_sample_gt keys (sample_text (gt :: others)) = vcf_sample_gt keys (sample_text (gt :: others')).
Proof. exact (@sample_gt_ignores_other_values). Qed.
Print Assumptions C01_genotype_is_the_gt_value_only.
Close Scope N_scope.

(* ... and it is classified by its alleles *)
Open Scope N_scope.
Theorem C01_genotype_of_a_rendered_sample : forall keys (g : agt) others,
  keys_ok keys -> g <> [] -> int8_ok g = true -> Forall value_ok others -> (length others < length keys)%nat ->
  classify_field (vcf_sample_gt keys (sample_text (render_gt g :: others))) = Some (classify (Some (map fst g))).
Proof. exact (@sample_classification). Qed.
Print Assumptions C01_genotype_of_a_rendered_sample.
Close Scope N_scope.

