(* Property C13 - view = marginalize > project > mask > normalize, equal to chained single steps. *)
From Sfs Require Import Index ArrayM Scalar Spectrum Project Create Stat IndexP ArrayP MargP FoldP StatDefP StatInvP ViewP CreateP CreateSpecP CreateRelP.

Close Scope Qc_scope. Close Scope Q_scope. Open Scope nat_scope.

(* any combination of options = chaining the single-option invocations in the documented order *)
Theorem C13_view_compose : forall o x,
  view_run o x =
  bind (opt_step (v_marg o) only_marg x) (fun y =>
  bind (opt_step (v_project o) only_project y) (fun z =>
  bind (flag_step (v_mask o) only_mask z) (fun w =>
  flag_step (v_normalize o) only_normalize w))).
Proof. exact (@view_compose). Qed.
Print Assumptions C13_view_compose.

(* no options: the input is reproduced *)
Theorem C13_view_identity : forall x,
  view_run no_opts x = inl x.
Proof. exact (@view_identity). Qed.
Print Assumptions C13_view_identity.

(* --mask-monomorphic zeroes exactly the all-zero and all-maximum entries *)
Theorem C13_mask_exact : forall x idx,
  wf x -> positive_shape (ashape x) -> inb (ashape x) idx = true ->
  q_getd (mask_monomorphic x) idx =
    if forallb (Nat.eqb 0) idx || list_eqb idx (map pred (ashape x)) then 0%Qc else q_getd x idx.
Proof. exact (@mask_exact). Qed.
Print Assumptions C13_mask_exact.

(* ... and nothing else changes *)
Theorem C13_mask_shape : forall x,
  ashape (mask_monomorphic x) = ashape x /\ length (adata (mask_monomorphic x)) = length (adata x).
Proof. exact (@mask_shape). Qed.
Print Assumptions C13_mask_shape.

(* --normalize: entries sum to one *)
Theorem C13_normalize_sum_one : forall x,
  spectrum_sum x <> 0%Qc -> spectrum_sum (normalize x) = 1%Qc.
Proof. exact (@normalize_sum_one). Qed.
Print Assumptions C13_normalize_sum_one.

(* ... ratios preserved *)
Theorem C13_normalize_ratios : forall x i j,
  (nth i (adata (normalize x)) 0 * nth j (adata x) 0 = nth j (adata (normalize x)) 0 * nth i (adata x) 0)%Qc.
Proof. exact (@normalize_ratios). Qed.
Print Assumptions C13_normalize_ratios.

(* ... every entry divided by the total *)
Theorem C13_normalize_entry : forall x i,
  nth i (adata (normalize x)) 0%Qc = (nth i (adata x) 0 / spectrum_sum x)%Qc.
Proof. exact (@normalize_entry). Qed.
Print Assumptions C13_normalize_entry.

(* an error of a step is the error of the run *)
Theorem C13_marginalize_error_stops : forall o x l e,
  v_marg o = Some (MRemove l) -> marginalize x l = inr e -> view_run o x = inr (VMarg e).
Proof. exact (@view_marg_error). Qed.
Print Assumptions C13_marginalize_error_stops.

(* --marginalize-keep = --marginalize-remove of the complement *)
Theorem C13_keep_is_remove : forall o x l,
  v_marg o = Some (MKeep l) ->
  view_run o x = view_run {| v_marg := Some (MRemove (keep_to_remove (dimensions x) l)); v_project := v_project o;
                             v_mask := v_mask o; v_normalize := v_normalize o |} x.
Proof. exact (@view_keep_is_remove). Qed.
Print Assumptions C13_keep_is_remove.

