(* Property C08 - genotype -> allele-count classification is total and exact. Statements + exact + Print Assumptions. *)
From Sfs Require Import Index ArrayM Scalar Spectrum Project Create SampleParse Npy Text Container IndexP ArrayP BinomP ProjectP CreateP CreateSpecP SampleParseP SampleParseGenP ContainerP SampleFieldP Frames FramesP.
From Coq Require Import Permutation.
Close Scope string_scope.

Close Scope Qc_scope. Close Scope Q_scope. Open Scope nat_scope.

(* a diploid genotype contributes a+b exactly when both alleles are 0 or 1 (phasing is not even an input) *)
Theorem C08_called_iff : forall g n,
  classify g = GCalled n <-> exists a b, g = Some [Some a; Some b] /\ a <= 1 /\ b <= 1 /\ n = a + b.
Proof. exact (@classify_called_iff). Qed.
Print Assumptions C08_called_iff.

(* multiallelic exactly when some allele index is >= 2 *)
Theorem C08_multiallelic_iff : forall g,
  classify g = GMultiallelic <-> exists a b, g = Some [Some a; Some b] /\ (2 <= a \/ 2 <= b).
Proof. exact (@classify_multiallelic_iff). Qed.
Print Assumptions C08_multiallelic_iff.

(* missing exactly when the field or either allele is '.' *)
Theorem C08_missing_iff : forall g,
  classify g = GMissing <-> g = None \/ g = Some [None] \/ exists a b, g = Some [a; b] /\ (a = None \/ b = None).
Proof. exact (@classify_missing_iff). Qed.
Print Assumptions C08_missing_iff.

(* any other ploidy is an error value *)
Theorem C08_ploidy_iff : forall g,
  classify g = GPloidyErr <-> exists l, g = Some l /\ length l <> 2 /\ l <> [None].
Proof. exact (@classify_ploidy_iff). Qed.
Print Assumptions C08_ploidy_iff.

(* called values are 0, 1 or 2 *)
Theorem C08_called_range : forall g n,
  classify g = GCalled n -> n <= 2.
Proof. exact (@classify_called_range). Qed.
Print Assumptions C08_called_range.

(* a record fails exactly when a selected column holds a non-diploid genotype *)
Theorem C08_ploidy_error_iff_selected : forall m st cols gs,
  site_steps m st cols gs = None <->
  exists i, i < length cols /\ i < length gs /\ smap_get m (nth i cols []) <> None /\ nth i gs GMissing = GPloidyErr.
Proof. exact (@site_steps_none_iff). Qed.
Print Assumptions C08_ploidy_error_iff_selected.

(* a selected non-diploid genotype fails the whole run, naming contig and position; no spectrum *)
Theorem C08_ploidy_aborts_run : forall cfg strict pre r post st,
  run_items cfg strict (init_rstate cfg) pre = inl st ->
  (exists i, i < length (r_cols cfg) /\ i < length (rec_gts r) /\
             smap_get (r_map cfg) (nth i (r_cols cfg) []) <> None /\
             classify (nth i (rec_gts r) None) = GPloidyErr) ->
  create_run cfg strict (pre ++ IRec r :: post) =
    {| out_spectrum := None; out_summary := None; out_error := Some (RErrGenotype (rec_contig r) (rec_pos r)) |}.
Proof. exact (@ploidy_aborts_run). Qed.
Print Assumptions C08_ploidy_aborts_run.

(* genotypes (of any ploidy) in unselected columns never matter *)
Theorem C08_unselected_irrelevant : forall m cols pto st gs gs',
  length gs = length gs' ->
  (forall i, smap_get m (nth i cols []) <> None -> nth i gs GMissing = nth i gs' GMissing) ->
  snd (read_site m cols pto st gs) = snd (read_site m cols pto st gs').
Proof. exact (@read_site_unselected_irrelevant). Qed.
Print Assumptions C08_unselected_irrelevant.

(* VCF text path: the GT text of a sample decodes to exactly its alleles (noodles' GT parser written out), whatever the separators *)
Open Scope N_scope.
Theorem C08_vcf_text_path : forall (g : agt),
  g <> [] -> int8_ok g = true -> map fst g <> [None] -> vcf_field_gt (render_gt g) = Some (Some (map fst g)).
Proof. exact (@vcf_field_render). Qed.
Print Assumptions C08_vcf_text_path.
Close Scope N_scope.

(* ... and the missing value '.' is 'no genotype' *)
Open Scope N_scope.
Theorem C08_vcf_missing_field : forall (g : agt),
  map fst g = [None] -> vcf_field_gt (render_gt g) = Some None.
Proof. exact (@vcf_field_render_missing). Qed.
Print Assumptions C08_vcf_missing_field.
Close Scope N_scope.

(* BCF binary path: the int8 vector htslib writes for a genotype (any padding width) decodes to exactly its alleles *)
Open Scope N_scope.
Theorem C08_bcf_binary_path : forall (g : agt) (w : nat),
  g <> [] -> int8_ok g = true -> (length g <= w)%nat -> bcf_field_gt (hts_encode g w) = Some (Some (map fst g)).
Proof. exact (@bcf_field_hts). Qed.
Print Assumptions C08_bcf_binary_path.
Close Scope N_scope.

(* VCF text path, whole sample: the genotype of a sample is its GT value, whatever other FORMAT values follow (present, missing or dropped) *)
Open Scope N_scope.
Theorem C08_vcf_sample_gt_is_its_first_value : forall keys gt others,
  keys_ok keys -> value_ok gt -> Forall value_ok others -> (length others < length keys)%nat ->
  vcf_sample_gt keys (sample_text (gt :: others)) = vcf_field_gt gt.
Proof. exact (@sample_gt_is_first_value). Qed.
Print Assumptions C08_vcf_sample_gt_is_its_first_value.
Close Scope N_scope.

(* ... so two samples with the same GT value have the same genotype *)
Open Scope N_scope.
Theorem C08_vcf_sample_other_values_irrelevant : forall keys gt others others',
  keys_ok keys -> value_ok gt -> Forall value_ok others -> Forall value_ok others' ->
  (length others < length keys)%nat -> (length others' < length keys)%nat ->
  vcf_sample_gt keys (sample_text (gt :: others)) = vcf_sample_gt keys (sample_text (gt :: others')).
Proof. exact (@sample_gt_ignores_other_values). Qed.
Print Assumptions C08_vcf_sample_other_values_irrelevant.
Close Scope N_scope.

(* a sample that is '.' as a whole has no genotype *)
Open Scope N_scope.
Theorem C08_vcf_sample_missing : forall keys,
  keys_ok keys -> vcf_sample_gt keys [46] = Some None.
Proof. exact (@sample_missing). Qed.
Print Assumptions C08_vcf_sample_missing.
Close Scope N_scope.

(* end to end: a genotype written into a sample next to any other values is classified by its alleles *)
Open Scope N_scope.
Theorem C08_vcf_sample_classification : forall keys (g : agt) others,
  keys_ok keys -> g <> [] -> int8_ok g = true -> Forall value_ok others -> (length others < length keys)%nat ->
  classify_field (vcf_sample_gt keys (sample_text (render_gt g :: others))) = Some (classify (Some (map fst g))).
Proof. exact (@sample_classification). Qed.
Print Assumptions C08_vcf_sample_classification.
Close Scope N_scope.

(* both paths give the classification of the alleles: the VCF text path and the BCF binary path agree on every genotype *)
Open Scope N_scope.
Theorem C08_both_paths_classify_alike : forall (g : agt) (w : nat),
  g <> [] -> int8_ok g = true -> (length g <= w)%nat ->
  classify_field (vcf_field_gt (render_gt g)) = Some (classify (Some (map fst g))) /\
  classify_field (bcf_field_gt (hts_encode g w)) = Some (classify (Some (map fst g))).
Proof. exact (@gt_container_independent). Qed.
Print Assumptions C08_both_paths_classify_alike.
Close Scope N_scope.

(* regardless of phasing, in both paths *)
Open Scope N_scope.
Theorem C08_phasing_irrelevant : forall (g g' : agt) (w w' : nat),
  g <> [] -> int8_ok g = true -> map fst g = map fst g' -> (length g <= w)%nat -> (length g' <= w')%nat ->
  classify_field (vcf_field_gt (render_gt g)) = classify_field (vcf_field_gt (render_gt g')) /\
  classify_field (bcf_field_gt (hts_encode g w)) = classify_field (bcf_field_gt (hts_encode g' w')).
Proof. exact (@gt_phasing_irrelevant). Qed.
Print Assumptions C08_phasing_irrelevant.
Close Scope N_scope.

(* refutation kept on record (F16): before the repair the missing field was a ploidy error in BCF and missing in VCF *)
Open Scope N_scope.
Theorem C08_bcf_missing_field_was_ploidy_error : exists (g : agt) (w : nat), g <> [] /\ int8_ok g = true /\ (length g <= w)%nat /\
    option_map classify_v0 (vcf_field_gt (render_gt g)) <> option_map classify_v0 (bcf_field_gt (hts_encode g w)).
Proof. exact (@gt_container_v0_refuted). Qed.
Print Assumptions C08_bcf_missing_field_was_ploidy_error.
Close Scope N_scope.

(* a BCF vector with no allele before the end-of-vector value is a record error *)
Open Scope N_scope.
Theorem C08_bcf_empty_vector_is_error : forall (w : nat),
  bcf_field_gt (repeat eov w) = None.
Proof. exact (@bcf_field_empty). Qed.
Print Assumptions C08_bcf_empty_vector_is_error.
Close Scope N_scope.

(* ... and so is a negative int8 value *)
Open Scope N_scope.
Theorem C08_bcf_negative_is_error : forall (v : N) (t : bytes),
  128 <= v -> v <> eov -> bcf_field_gt (v :: t) = None.
Proof. exact (@bcf_field_negative). Qed.
Print Assumptions C08_bcf_negative_is_error.
Close Scope N_scope.

(* totality and non-vacuity: every decoded GT falls in exactly one class; 0/2 is multiallelic *)
Example C08_examples :
  classify (Some [Some 0; Some 2]) = GMultiallelic /\ classify (Some [Some 1; Some 1]) = GCalled 2 /\
  classify (Some [None; Some 1]) = GMissing /\ classify None = GMissing /\
  classify (Some [Some 0]) = GPloidyErr /\ classify (Some [Some 0; Some 1; Some 1]) = GPloidyErr.
Proof. repeat split; reflexivity. Qed.
