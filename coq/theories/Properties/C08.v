(* Property C08 - genotype -> allele-count classification is total and exact. Statements + exact + Print Assumptions. *)
From Sfs Require Import Index ArrayM Scalar Spectrum Project Create SampleParse IndexP ArrayP BinomP ProjectP CreateP CreateSpecP SampleParseP.
From Coq Require Import Permutation.

Close Scope Qc_scope. Close Scope Q_scope. Open Scope nat_scope.

(* a diploid genotype contributes a+b exactly when both alleles are 0 or 1 (phasing is not even an input) *)
Theorem C08_called_iff : forall g n,
  classify g = GCalled n <-> exists a b, g = Some [Some a; Some b] /\ a <= 1 /\ b <= 1 /\ n = a + b.
Proof. exact (@classify_called_iff). Qed.
Print Assumptions C08_called_iff.

(* multiallelic exactly when some allele index is >= 2 *)
Theorem C08_multiallelic_iff : forall g,
  classify g = GMultiallelic <-> exists a b, g = Some [Some a; Some b] /\ (2 <= a \/ 2 <= b).
Proof. exact (@classify_multiallelic_iff). Qed.
Print Assumptions C08_multiallelic_iff.

(* missing exactly when the field or either allele is '.' *)
Theorem C08_missing_iff : forall g,
  classify g = GMissing <-> g = None \/ exists a b, g = Some [a; b] /\ (a = None \/ b = None).
Proof. exact (@classify_missing_iff). Qed.
Print Assumptions C08_missing_iff.

(* any other ploidy is an error value *)
Theorem C08_ploidy_iff : forall g,
  classify g = GPloidyErr <-> exists l, g = Some l /\ length l <> 2.
Proof. exact (@classify_ploidy_iff). Qed.
Print Assumptions C08_ploidy_iff.

(* called values are 0, 1 or 2 *)
Theorem C08_called_range : forall g n,
  classify g = GCalled n -> n <= 2.
Proof. exact (@classify_called_range). Qed.
Print Assumptions C08_called_range.

(* a record fails exactly when a selected column holds a non-diploid genotype *)
Theorem C08_ploidy_error_iff_selected : forall m st cols gs,
  site_steps m st cols gs = None <->
  exists i, i < length cols /\ i < length gs /\ smap_get m (nth i cols []) <> None /\ nth i gs GMissing = GPloidyErr.
Proof. exact (@site_steps_none_iff). Qed.
Print Assumptions C08_ploidy_error_iff_selected.

(* a selected non-diploid genotype fails the whole run, naming contig and position; no spectrum *)
Theorem C08_ploidy_aborts_run : forall cfg strict pre r post st,
  run_items cfg strict (init_rstate cfg) pre = inl st ->
  (exists i, i < length (r_cols cfg) /\ i < length (rec_gts r) /\
             smap_get (r_map cfg) (nth i (r_cols cfg) []) <> None /\
             classify (nth i (rec_gts r) None) = GPloidyErr) ->
  create_run cfg strict (pre ++ IRec r :: post) =
    {| out_spectrum := None; out_summary := None; out_error := Some (RErrGenotype (rec_contig r) (rec_pos r)) |}.
Proof. exact (@ploidy_aborts_run). Qed.
Print Assumptions C08_ploidy_aborts_run.

(* genotypes (of any ploidy) in unselected columns never matter *)
Theorem C08_unselected_irrelevant : forall m cols pto st gs gs',
  length gs = length gs' ->
  (forall i, smap_get m (nth i cols []) <> None -> nth i gs GMissing = nth i gs' GMissing) ->
  snd (read_site m cols pto st gs) = snd (read_site m cols pto st gs').
Proof. exact (@read_site_unselected_irrelevant). Qed.
Print Assumptions C08_unselected_irrelevant.

(* totality and non-vacuity: every decoded GT falls in exactly one class; 0/2 is multiallelic *)
Example C08_examples :
  classify (Some [Some 0; Some 2]) = GMultiallelic /\ classify (Some [Some 1; Some 1]) = GCalled 2 /\
  classify (Some [None; Some 1]) = GMissing /\ classify None = GMissing /\
  classify (Some [Some 0]) = GPloidyErr /\ classify (Some [Some 0; Some 1; Some 1]) = GPloidyErr.
Proof. repeat split; reflexivity. Qed.
