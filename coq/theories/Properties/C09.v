(* Property C09 - axes follow first appearance of population labels; only listed samples count. *)
From Sfs Require Import Index ArrayM Scalar Spectrum Project Create SampleParse Npy Text Container IndexP ArrayP BinomP ProjectP CreateP CreateSpecP SampleParseP SampleParseGenP ContainerP SampleFieldP Frames FramesP.
From Coq Require Import Permutation.
Close Scope string_scope.

Close Scope Qc_scope. Close Scope Q_scope. Open Scope nat_scope.

(* `labels l` lists each label of the sample list once *)
Theorem C09_labels_distinct_complete : forall l,
  NoDup (labels l) /\ (forall p, In p (labels l) <-> In p (map snd l)).
Proof. exact (@labels_spec). Qed.
Print Assumptions C09_labels_distinct_complete.

(* ... in order of first appearance *)
Theorem C09_labels_first_appearance : forall l1 e l2,
  ~ In (snd e) (map snd l1) -> labels (l1 ++ e :: l2) = labels l1 ++ snd e :: filter (fun q => negb (existsb (pop_eqb q) (labels l1 ++ [snd e]))) (labels l2).
Proof. exact (@labels_first_appearance). Qed.
Print Assumptions C09_labels_first_appearance.

(* the sample map keeps the listed samples in list order *)
Theorem C09_sample_order_kept : forall l,
  NoDup (map fst l) -> map fst (build_map l) = map fst l.
Proof. exact (@build_map_keys). Qed.
Print Assumptions C09_sample_order_kept.

(* population id (= axis) of a listed sample = position of its label among the distinct labels *)
Theorem C09_population_id_is_label_position : forall l s p,
  NoDup (map fst l) -> In (s, p) l -> smap_get (build_map l) s = index_of pop_eqb p (labels l).
Proof. exact (@build_map_ids). Qed.
Print Assumptions C09_population_id_is_label_position.

(* samples that are not listed are not selected *)
Theorem C09_unlisted_not_selected : forall l s,
  ~ In s (map fst l) -> smap_get (build_map l) s = None.
Proof. exact (@build_map_get_none). Qed.
Print Assumptions C09_unlisted_not_selected.

(* one axis per distinct label *)
Theorem C09_number_of_axes : forall l,
  NoDup (map fst l) -> number_of_populations (build_map l) = length (labels l).
Proof. exact (@number_of_populations_spec). Qed.
Print Assumptions C09_number_of_axes.

(* axis j has length 2 * (listed samples with the j-th label) + 1 *)
Theorem C09_axis_lengths : forall l,
  NoDup (map fst l) -> map_shape (build_map l) = Some (map (fun p => 1 + 2 * label_count l p) (labels l)).
Proof. exact (@map_shape_spec). Qed.
Print Assumptions C09_axis_lengths.

(* samples without a label form one population *)
Theorem C09_unnamed_is_one_population : forall cols,
  NoDup cols -> cols <> [] ->
  map_shape (map_from_all cols) = Some [1 + 2 * length cols] /\
  forall c, In c cols -> smap_get (map_from_all cols) c = Some 0.
Proof. exact (@from_all_one_population). Qed.
Print Assumptions C09_unnamed_is_one_population.

(* reordering list entries while keeping the first-appearance order of labels changes nothing observable *)
Theorem C09_list_reorder_same_label_order : forall l l',
  NoDup (map fst l) -> Permutation l l' -> labels l = labels l' ->
  (forall s, smap_get (build_map l) s = smap_get (build_map l') s) /\
  map_shape (build_map l) = map_shape (build_map l').
Proof. exact (@build_map_reorder). Qed.
Print Assumptions C09_list_reorder_same_label_order.

(* the per-record result depends on the map only through lookups by sample name *)
Theorem C09_map_enters_by_lookup_only : forall m m' cols pto st gs,
  (forall s, smap_get m s = smap_get m' s) ->
  snd (read_site m cols pto st gs) = snd (read_site m' cols pto st gs).
Proof. exact (@read_site_map_ext). Qed.
Print Assumptions C09_map_enters_by_lookup_only.

(* reordering the sample columns of the input changes no per-record result *)
Theorem C09_column_order_free : forall m cols cols' pto st gs gs',
  length cols = length gs -> length cols' = length gs' -> NoDup cols ->
  Permutation (combine cols gs) (combine cols' gs') ->
  snd (read_site m cols pto st gs) = snd (read_site m cols' pto st gs').
Proof. exact (@read_site_column_perm). Qed.
Print Assumptions C09_column_order_free.

(* --samples-file and --samples with the same content build the same sample map (names and labels free of the separators) *)
Theorem C09_samples_file_equals_inline : forall l,
  l <> [] -> Forall entry_plain l ->
  build_map (parse_samples_file (render_file l)) = build_map (parse_samples_inline (render_inline l)) /\
  parse_samples_file (render_file l) = l.
Proof. exact (@file_equiv_inline). Qed.
Print Assumptions C09_samples_file_equals_inline.

(* the inline syntax name=label,... denotes the list *)
Theorem C09_inline_list_roundtrip : forall l,
  l <> [] -> Forall entry_plain l -> parse_samples_inline (render_inline l) = l.
Proof. exact (@parse_render_inline). Qed.
Print Assumptions C09_inline_list_roundtrip.

(* the file syntax name<TAB>label per line denotes the list *)
Theorem C09_samples_file_roundtrip : forall l,
  Forall entry_plain l -> parse_samples_file (render_file l) = l.
Proof. exact (@parse_render_file). Qed.
Print Assumptions C09_samples_file_roundtrip.

(* Windows line ends are tolerated *)
Theorem C09_samples_file_crlf : forall l,
  Forall entry_plain l ->
  parse_samples_file (flat_map (fun e => render_entry 9 e ++ [13; 10]) l) = l.
Proof. exact (@parse_file_crlf). Qed.
Print Assumptions C09_samples_file_crlf.

(* the inline entry is split at its FIRST '=': labels may contain '=' (anything but ',') *)
Theorem C09_inline_list_roundtrip_labels_with_equals : forall l,
  l <> [] -> Forall entry_inline_ok l -> parse_samples_inline (render_inline l) = l.
Proof. exact (@parse_render_inline_gen). Qed.
Print Assumptions C09_inline_list_roundtrip_labels_with_equals.

(* the file line is split at its FIRST tab: labels may contain spaces, '=', ',' and tabs *)
Theorem C09_samples_file_roundtrip_any_label : forall l,
  Forall entry_file_ok l -> parse_samples_file (render_file l) = l.
Proof. exact (@parse_render_file_gen). Qed.
Print Assumptions C09_samples_file_roundtrip_any_label.

(* the two syntaxes build the same map whenever the content can be written in both *)
Theorem C09_samples_file_equals_inline_general : forall l,
  l <> [] -> Forall entry_inline_ok l -> Forall entry_file_ok l ->
  build_map (parse_samples_file (render_file l)) = build_map (parse_samples_inline (render_inline l)).
Proof. exact (@file_equiv_inline_gen). Qed.
Print Assumptions C09_samples_file_equals_inline_general.

(* an empty list is an error *)
Theorem C09_empty_list_is_error : forall cols p,
  build_reader cols (SamplesList []) p = inr EEmptySamplesMap.
Proof. exact (@build_reader_empty). Qed.
Print Assumptions C09_empty_list_is_error.

(* a listed sample that is absent from the input is an error *)
Theorem C09_unknown_sample_is_error : forall cols l p s,
  NoDup (map fst l) -> In s (map fst l) -> ~ In s cols ->
  exists s', build_reader cols (SamplesList l) p = inr (EUnknownSample s') /\ In s' (map fst l) /\ ~ In s' cols.
Proof. exact (@build_reader_unknown). Qed.
Print Assumptions C09_unknown_sample_is_error.

(* non-vacuity: b=B,a=A,c=B gives axes (B: 5, A: 3) *)
Example C09_example :
  map_shape (build_map [([98], Some [66]); ([97], Some [65]); ([99], Some [66])]) = Some [5; 3] /\
  smap_get (build_map [([98], Some [66]); ([97], Some [65]); ([99], Some [66])]) [97] = Some 1.
Proof. split; reflexivity. Qed.
