(* Property C10 - every record is counted once or reported skipped; strict mode; no partial output. *)
From Sfs Require Import Index ArrayM Scalar Spectrum Project Create SampleParse Npy Text Container IndexP ArrayP BinomP ProjectP CreateP CreateSpecP SampleParseP SampleParseGenP ContainerP SampleFieldP Frames FramesP.
From Coq Require Import Permutation.
Close Scope string_scope.

Close Scope Qc_scope. Close Scope Q_scope. Open Scope nat_scope.

(* total mass + skipped = records read, each counted record has weight exactly one (Standard: +1; Projected: the weights sum to 1) *)
Theorem C10_conservation : forall cfg strict items st,
  cfg_wf cfg -> run_items cfg strict (init_rstate cfg) items = inl st ->
  (qsum (scs st) + qnat (n_skipped st))%Qc = qnat (n_sites st) /\ n_sites st = length items /\
  length (scs st) = elements (r_shape cfg).
Proof. exact (@run_conservation). Qed.
Print Assumptions C10_conservation.

(* the weights a projectable site adds sum to one *)
Theorem C10_projected_weights_sum_to_one : forall pfrom from pto,
  length pfrom = length from -> length from = length pto ->
  Forall2 le from pfrom -> Forall2 le pto pfrom ->
  qsum (map (project_value pfrom from pto) (indices (map S pto))) = 1%Qc.
Proof. exact (@project_value_sum_one). Qed.
Print Assumptions C10_projected_weights_sum_to_one.

(* a strict run that succeeds equals the non-strict run and skipped nothing *)
Theorem C10_strict_success_same_output : forall cfg items st,
  run_items cfg true (init_rstate cfg) items = inl st ->
  run_items cfg false (init_rstate cfg) items = inl st /\ n_skipped st = 0.
Proof. exact (@strict_ok_same). Qed.
Print Assumptions C10_strict_success_same_output.

(* conversely *)
Theorem C10_nonstrict_without_skips_is_strict : forall cfg items st,
  run_items cfg false (init_rstate cfg) items = inl st -> n_skipped st = 0 ->
  run_items cfg true (init_rstate cfg) items = inl st.
Proof. exact (@nonstrict_noskip_same). Qed.
Print Assumptions C10_nonstrict_without_skips_is_strict.

(* strict mode fails at the FIRST record in input order that would be skipped, naming its contig and position *)
Theorem C10_strict_fails_at_first : forall cfg items c p,
  run_items cfg true (init_rstate cfg) items = inr (RErrStrict c p) ->
  exists pre r post st,
    items = pre ++ IRec r :: post /\ c = rec_contig r /\ p = rec_pos r /\
    run_items cfg true (init_rstate cfg) pre = inl st /\ n_skipped st = 0 /\
    snd (read_site (r_map cfg) (r_cols cfg) (r_pto cfg) (rs st) (map classify (rec_gts r))) = SRead Insufficient.
Proof. exact (@strict_first). Qed.
Print Assumptions C10_strict_fails_at_first.

(* a failing run has no spectrum *)
Theorem C10_no_partial_output : forall cfg strict items,
  out_error (create_run cfg strict items) <> None <-> out_spectrum (create_run cfg strict items) = None.
Proof. exact (@no_partial_output). Qed.
Print Assumptions C10_no_partial_output.

(* the skipped-sites summary appears iff something was skipped, with the right counts *)
Theorem C10_summary_iff_skipped : forall cfg strict items st,
  run_items cfg strict (init_rstate cfg) items = inl st ->
  out_summary (create_run cfg strict items) = if n_skipped st =? 0 then None else Some (n_skipped st, n_sites st).
Proof. exact (@summary_iff_skipped). Qed.
Print Assumptions C10_summary_iff_skipped.

(* ploidy error at any position: error names the record, no spectrum *)
Theorem C10_ploidy_error_no_output : forall cfg strict pre r post st,
  run_items cfg strict (init_rstate cfg) pre = inl st ->
  (exists i, i < length (r_cols cfg) /\ i < length (rec_gts r) /\
             smap_get (r_map cfg) (nth i (r_cols cfg) []) <> None /\
             classify (nth i (rec_gts r) None) = GPloidyErr) ->
  create_run cfg strict (pre ++ IRec r :: post) =
    {| out_spectrum := None; out_summary := None; out_error := Some (RErrGenotype (rec_contig r) (rec_pos r)) |}.
Proof. exact (@ploidy_aborts_run). Qed.
Print Assumptions C10_ploidy_error_no_output.

(* a corrupt record at any position: error, no spectrum *)
Theorem C10_read_error_no_output : forall cfg strict pre post st,
  run_items cfg strict (init_rstate cfg) pre = inl st ->
  create_run cfg strict (pre ++ IIoErr :: post) = {| out_spectrum := None; out_summary := None; out_error := Some RErrRead |}.
Proof. exact (@ioerr_aborts_run). Qed.
Print Assumptions C10_read_error_no_output.

(* the record framing of the (repaired) BCF reader: a stream cut anywhere but between two records is an error - it never reads as a shorter list of records *)
Theorem C10_bcf_stream_cut_inside_a_record_is_corrupt : forall rs n,
  Forall frame_ok rs -> n <= length (frames_bytes rs) -> ~ In n (boundaries rs) ->
  read_frames (firstn n (frames_bytes rs)) = None.
Proof. exact (@read_frames_cut_inside). Qed.
Print Assumptions C10_bcf_stream_cut_inside_a_record_is_corrupt.

(* ... and cut between two records it is the records before the cut *)
Theorem C10_bcf_stream_cut_between_records : forall rs k,
  Forall frame_ok rs -> k <= length rs ->
  read_frames (firstn (length (frames_bytes (firstn k rs))) (frames_bytes rs)) = Some (firstn k rs).
Proof. exact (@read_frames_cut_at_boundary). Qed.
Print Assumptions C10_bcf_stream_cut_between_records.

