(* Property C07 - spectrum files round-trip through text and npy; the tool reads what it writes.
   Values are 64-bit patterns; the std float formatting/parsing functions are modelled by executable stand-ins
   (print_fixed, parse_f64) that are compared with Rust on every run. *)
From Sfs Require Import Index Npy Text NpyP TextP NpySpellP TextLayoutP.
Close Scope string_scope. Open Scope N_scope.

(* npy: writing and reading back returns the same shape and bit-identical values (any 64-bit pattern: NaN payloads, infinities) *)
Theorem C07_npy_roundtrip : forall sh vals,
  file_ok sh vals -> read_npy (write_npy sh vals) = inl (sh, vals).
Proof. exact (@npy_roundtrip). Qed.
Print Assumptions C07_npy_roundtrip.

(* what is written as npy is detected as npy *)
Theorem C07_auto_detect_npy : forall sh vals,
  detect_format (write_npy sh vals) = Some FNpy.
Proof. exact (@detect_write_npy). Qed.
Print Assumptions C07_auto_detect_npy.

(* what is written as text is detected as text *)
Theorem C07_auto_detect_text : forall sh vals p,
  detect_format (write_text sh vals p) = Some FText.
Proof. exact (@detect_write_text). Qed.
Print Assumptions C07_auto_detect_text.

(* the auto-detecting reader reads back the npy output *)
Theorem C07_read_back_npy : forall sh vals,
  file_ok sh vals -> existsb (N.eqb 0) sh = false ->
  read_spectrum (write_npy sh vals) = inl (sh, vals).
Proof. exact (@read_spectrum_npy). Qed.
Print Assumptions C07_read_back_npy.

(* text: the shape line round-trips *)
Theorem C07_text_shape_roundtrip : forall sh,
  shape_ok sh ->
  parse_text_header (str "#SHAPE=<" ++ join [47] (map dec sh) ++ str ">" ++ [10]) = Some sh.
Proof. exact (@text_header_roundtrip). Qed.
Print Assumptions C07_text_shape_roundtrip.

(* text: reading back yields the shape and, value by value, the parse of what was printed *)
Theorem C07_text_roundtrip_structure : forall sh vals p,
  shape_ok sh -> N.of_nat (length vals) = nelements sh ->
  (forall v, In v vals -> parse_f64 (print_fixed v p) <> None) ->
  read_text (write_text sh vals p) =
    inl (sh, map (fun v => match parse_f64 (print_fixed v p) with Some w => w | None => 0 end) vals).
Proof. exact (@text_roundtrip_struct). Qed.
Print Assumptions C07_text_roundtrip_structure.

(* text: the printed digits of a finite value are those of round-half-even(value * 10^p) *)
Theorem C07_text_printed_digits : forall w p,
  f_is_nan w = false -> f_is_inf w = false ->
  print_fixed w p =
    (if f_sign w then [45] else []) ++
    (let ds := pad_zeros (S p) (dec (scaled_of w p)) in
     firstn (length ds - p) ds ++ (match p with O => [] | S _ => 46 :: skipn (length ds - p) ds end)).
Proof. exact (@print_fixed_digits). Qed.
Print Assumptions C07_text_printed_digits.

(* ... which differs from value * 10^p by at most one half: the printed decimal is within half a unit of the p-th decimal *)
Theorem C07_text_half_unit : forall w p e,
  f_x w = Zneg e ->
  2 * (scaled_of w p * 2 ^ Npos e) <= 2 * (f_M w * 10 ^ N.of_nat p) + 2 ^ Npos e /\
  2 * (f_M w * 10 ^ N.of_nat p) <= 2 * (scaled_of w p * 2 ^ Npos e) + 2 ^ Npos e.
Proof. exact (@scaled_half_unit). Qed.
Print Assumptions C07_text_half_unit.

(* the rounding used by both stand-ins is to nearest *)
Theorem C07_round_half_even : forall num den,
  0 < den ->
  2 * (rne_div num den * den) <= 2 * num + den /\ 2 * num <= 2 * (rne_div num den * den) + den.
Proof. exact (@rne_div_bound). Qed.
Print Assumptions C07_round_half_even.

(* NaN and infinities are printed as NaN / inf / -inf *)
Theorem C07_text_special_printed : forall p,
  print_fixed (N.shiftl 2047 52) p = str "inf" /\ print_fixed (sign_bit + N.shiftl 2047 52) p = str "-inf" /\
  forall w, f_is_nan w = true -> print_fixed w p = str "NaN".
Proof. exact (@print_fixed_special). Qed.
Print Assumptions C07_text_special_printed.

(* ... and read back as NaN / inf / -inf *)
Theorem C07_text_special_parsed : parse_f64 (str "inf") = Some (N.shiftl 2047 52) /\ parse_f64 (str "-inf") = Some (sign_bit + N.shiftl 2047 52) /\
  exists w, parse_f64 (str "NaN") = Some w /\ f_is_nan w = true.
Proof. exact (@parse_f64_special). Qed.
Print Assumptions C07_text_special_parsed.

(* printed values are non-empty ASCII tokens without whitespace *)
Theorem C07_printed_values_are_tokens : forall w p,
  print_fixed w p <> [] /\ no_ws (print_fixed w p) /\ Forall (fun c => c < 128) (print_fixed w p).
Proof. exact (@print_fixed_nonempty_no_ws). Qed.
Print Assumptions C07_printed_values_are_tokens.

(* text: the value tokens are found whatever non-empty runs of ASCII whitespace (spaces, tabs, line breaks, CR LF) separate, precede or follow them *)
Theorem C07_text_tokens_any_layout : forall (toks seps : list bytes) (lead tail : bytes),
  Forall word toks -> Forall ws_run seps -> all_ws lead -> all_ws tail ->
  split_ascii_whitespace (lead ++ layout toks seps tail) = toks.
Proof. exact (@split_ws_layout). Qed.
Print Assumptions C07_text_tokens_any_layout.

(* ... so the reader returns for every layout what it returns for the one-line layout the writer produces *)
Theorem C07_text_reader_layout_free : forall (line : bytes) (toks seps : list bytes) (lead tail : bytes),
  Forall (fun c => (c =? 10) = false) line -> Forall (fun c => c < 128) line ->
  Forall word toks -> Forall (Forall (fun c => c < 128)) toks -> Forall ws_run seps -> all_ws lead -> all_ws tail ->
  read_text (line ++ 10 :: lead ++ layout toks seps tail) = read_text (line ++ 10 :: join [32] toks ++ [10]).
Proof. exact (@read_text_layout_free). Qed.
Print Assumptions C07_text_reader_layout_free.

