(* Property C15 - npy output conforms to NPY 1.0; reader of the numpy dtypes. *)
From Sfs Require Import Index Npy Text NpyP TextP NpySpellP TextLayoutP.
Close Scope string_scope. Open Scope N_scope.

(* every shape: magic, version 1.0, little-endian u16 header length, dict, space padding, terminating newline; data starts at a multiple of 64 *)
Theorem C15_header_structure : forall sh,
  exists pad_len, 1 <= pad_len <= 64 /\
  write_header sh = magic ++ [1; 0] ++ le_bytes 2 (N.of_nat (length (fmt_dict sh)) + pad_len)
                    ++ fmt_dict sh ++ repeat 32 (N.to_nat pad_len - 1) ++ [10] /\
  (10 + N.of_nat (length (fmt_dict sh)) + pad_len) mod 64 = 0 /\
  N.of_nat (length (write_header sh)) mod 64 = 0.
Proof. exact (@write_header_structure). Qed.
Print Assumptions C15_header_structure.

(* then prod(shape) little-endian doubles in C order *)
Theorem C15_file_layout : forall sh vals,
  write_npy sh vals = write_header sh ++ flat_map (le_bytes 8) vals /\
  length (write_npy sh vals) = (length (write_header sh) + 8 * length vals)%nat.
Proof. exact (@write_npy_layout). Qed.
Print Assumptions C15_file_layout.

(* the header dict is ASCII *)
Theorem C15_dict_is_ascii : forall sh,
  Forall (fun c => c < 128) (fmt_dict sh).
Proof. exact (@fmt_dict_ascii). Qed.
Print Assumptions C15_dict_is_ascii.

(* the header dict is the Python literal {'descr': '<f8', 'fortran_order': False, 'shape': (...)}: the reader's grammar parses it to exactly that *)
Theorem C15_dict_parses_to_f8_C_order_shape : forall sh pad,
  shape_ok sh ->
  parse_dict (fmt_dict sh ++ pad) = Some [EDescr Little F8; EFortran false; EShape sh].
Proof. exact (@parse_dict_fmt_dict). Qed.
Print Assumptions C15_dict_parses_to_f8_C_order_shape.

(* reader: the descr entry in either quote style, any spacing around ':', byte order '<' '|' '>' and all ten dtypes *)
Theorem C15_reader_accepts_any_descr_spelling : forall q q' ec e t s1 s2 r,
  quote_ok q -> quote_ok q' -> endian_char e ec -> hspace s1 -> hspace s2 ->
  parse_entry (descr_entry q q' ec t s1 s2 ++ r) = Some (EDescr e t, r).
Proof. exact (@parse_descr_entry). Qed.
Print Assumptions C15_reader_accepts_any_descr_spelling.

(* reader: the fortran_order entry likewise *)
Theorem C15_reader_accepts_any_fortran_spelling : forall q f s1 s2 r,
  quote_ok q -> hspace s1 -> hspace s2 ->
  parse_entry (fortran_entry q f s1 s2 ++ r) = Some (EFortran f, r).
Proof. exact (@parse_fortran_entry). Qed.
Print Assumptions C15_reader_accepts_any_fortran_spelling.

(* reader: the shape tuple with any spacing, with or without trailing comma (numpy writes (n,) and (a, b)) *)
Theorem C15_reader_accepts_any_shape_spelling : forall q sh s1 s2 l rr trailing r,
  quote_ok q -> hspace s1 -> hspace s2 -> hspace l -> hspace rr ->
  sh <> [] -> Forall (fun n => n <= u64_max) sh ->
  (length sh = 1%nat -> trailing = true \/ True) ->
  parse_entry (shape_entry q sh s1 s2 l rr trailing ++ r) = Some (EShape sh, r).
Proof. exact (@parse_shape_entry). Qed.
Print Assumptions C15_reader_accepts_any_shape_spelling.

(* reader: the three entries in any order, any spacing after '{' and before '}', optional trailing comma, anything after '}' *)
Theorem C15_reader_accepts_any_key_order : forall a sepa sepb tail b rest e1 e2 e3 x1 x2 x3,
  hspace a -> hspace b -> sep_ok sepa -> sep_ok sepb -> tail_ok tail ->
  (forall r, parse_entry (e1 ++ r) = Some (x1, r)) -> (forall r, parse_entry (e2 ++ r) = Some (x2, r)) ->
  (forall r, parse_entry (e3 ++ r) = Some (x3, r)) ->
  (match e1 with c :: _ => c <> 32 /\ c <> 9 | [] => False end) ->
  (match e2 with c :: _ => c <> 32 /\ c <> 9 | [] => False end) ->
  (match e3 with c :: _ => c <> 32 /\ c <> 9 | [] => False end) ->
  parse_dict (dict_text a e1 sepa e2 sepb e3 tail b rest) = Some [x1; x2; x3].
Proof. exact (@parse_dict_any_order). Qed.
Print Assumptions C15_reader_accepts_any_key_order.

(* ... all six orders give the same header record *)
Theorem C15_reader_header_record_order_free : forall e t f sh,
  let d := EDescr e t in let fo := EFortran f in let s := EShape sh in
  forall l, In l [[d; fo; s]; [d; s; fo]; [fo; d; s]; [fo; s; d]; [s; d; fo]; [s; fo; d]] ->
  dict_of_entries l = Some {| h_endian := e; h_type := t; h_fortran := f; h_shape := sh |}.
Proof. exact (@dict_of_entries_perm). Qed.
Print Assumptions C15_reader_header_record_order_free.

(* little-endian words decode to themselves *)
Theorem C15_le_words : forall k w,
  word_ok k w -> le_word (le_bytes k w) = w.
Proof. exact (@le_word_le_bytes). Qed.
Print Assumptions C15_le_words.

(* integer dtypes: values up to 2^53 are converted exactly *)
Theorem C15_integers_exact_below_2_53 : forall m,
  0 < m -> m <= 2 ^ 53 ->
  exists mm e, f64_value_pos (f64_of_N_bits m) = Some (mm, e) /\ (0 <= e + 1074)%Z /\
  (match e with
   | Zneg k => mm = m * 2 ^ Npos k
   | _ => mm * 2 ^ Z.to_N e = m
   end).
Proof. exact (@f64_of_N_exact). Qed.
Print Assumptions C15_integers_exact_below_2_53.

(* Fortran-ordered files are rejected *)
Theorem C15_fortran_order_rejected : forall inp es h,
  parse_dict inp = Some es -> dict_of_entries es = Some h -> h_fortran h = true ->
  forall pre post,
    (exists mj mn lb, pre = magic ++ [mj; mn] ++ lb /\ length lb = (if mj =? 1 then 2%nat else 4%nat) /\
                      le_word lb = N.of_nat (length inp)) ->
    (exists l, read_npy (pre ++ inp ++ post) = inl l) -> False.
Proof. exact (@npy_fortran_rejected_fixed). Qed.
Print Assumptions C15_fortran_order_rejected.

