(* Property C15 - npy output conforms to NPY 1.0; reader of the numpy dtypes. *)
From Sfs Require Import Index Npy Text NpyP TextP.
Close Scope string_scope. Open Scope N_scope.

(* every shape: magic, version 1.0, little-endian u16 header length, dict, space padding, terminating newline; data starts at a multiple of 64 *)
Theorem C15_header_structure : forall sh,
  exists pad_len, 1 <= pad_len <= 64 /\
  write_header sh = magic ++ [1; 0] ++ le_bytes 2 (N.of_nat (length (fmt_dict sh)) + pad_len)
                    ++ fmt_dict sh ++ repeat 32 (N.to_nat pad_len - 1) ++ [10] /\
  (10 + N.of_nat (length (fmt_dict sh)) + pad_len) mod 64 = 0 /\
  N.of_nat (length (write_header sh)) mod 64 = 0.
Proof. exact (@write_header_structure). Qed.
Print Assumptions C15_header_structure.

(* then prod(shape) little-endian doubles in C order *)
Theorem C15_file_layout : forall sh vals,
  write_npy sh vals = write_header sh ++ flat_map (le_bytes 8) vals /\
  length (write_npy sh vals) = (length (write_header sh) + 8 * length vals)%nat.
Proof. exact (@write_npy_layout). Qed.
Print Assumptions C15_file_layout.

(* the header dict is ASCII *)
Theorem C15_dict_is_ascii : forall sh,
  Forall (fun c => c < 128) (fmt_dict sh).
Proof. exact (@fmt_dict_ascii). Qed.
Print Assumptions C15_dict_is_ascii.

(* the header dict is the Python literal {'descr': '<f8', 'fortran_order': False, 'shape': (...)}: the reader's grammar parses it to exactly that *)
Theorem C15_dict_parses_to_f8_C_order_shape : forall sh pad,
  shape_ok sh ->
  parse_dict (fmt_dict sh ++ pad) = Some [EDescr Little F8; EFortran false; EShape sh].
Proof. exact (@parse_dict_fmt_dict). Qed.
Print Assumptions C15_dict_parses_to_f8_C_order_shape.

(* little-endian words decode to themselves *)
Theorem C15_le_words : forall k w,
  word_ok k w -> le_word (le_bytes k w) = w.
Proof. exact (@le_word_le_bytes). Qed.
Print Assumptions C15_le_words.

(* integer dtypes: values up to 2^53 are converted exactly *)
Theorem C15_integers_exact_below_2_53 : forall m,
  0 < m -> m <= 2 ^ 53 ->
  exists mm e, f64_value_pos (f64_of_N_bits m) = Some (mm, e) /\ (0 <= e + 1074)%Z /\
  (match e with
   | Zneg k => mm = m * 2 ^ Npos k
   | _ => mm * 2 ^ Z.to_N e = m
   end).
Proof. exact (@f64_of_N_exact). Qed.
Print Assumptions C15_integers_exact_below_2_53.

(* Fortran-ordered files are rejected *)
Theorem C15_fortran_order_rejected : forall inp es h,
  parse_dict inp = Some es -> dict_of_entries es = Some h -> h_fortran h = true ->
  forall pre post,
    (exists mj mn lb, pre = magic ++ [mj; mn] ++ lb /\ length lb = (if mj =? 1 then 2%nat else 4%nat) /\
                      le_word lb = N.of_nat (length inp)) ->
    (exists l, read_npy (pre ++ inp ++ post) = inl l) -> False.
Proof. exact (@npy_fortran_rejected_fixed). Qed.
Print Assumptions C15_fortran_order_rejected.

