(* Property C03 - projection is exact hypergeometric down-sampling; its laws.
   Only statements, `exact` of lemmas proved in Proofs/{BinomP,ProjectP}.v, Print Assumptions, examples.
   The f64 kernel (exp/ln-gamma binomial) is compared with `hyp` by the correspondence check; the
   theorems are about exact arithmetic. *)
From Sfs Require Import Index ArrayM Scalar Spectrum Project IndexP ArrayP BinomP ProjectP ProjectLinP.

Close Scope Qc_scope. Close Scope Q_scope. Open Scope nat_scope.

(* the hypergeometric kernel *)
Theorem C03_pmf_sums_to_one : forall N K n, K <= N -> n <= N -> qsum (map (hyp N K n) (seq 0 (S n))) = 1%Qc.
Proof. exact hyp_sum_one. Qed.
Print Assumptions C03_pmf_sums_to_one.
Theorem C03_pmf_nonneg : forall N K n k, (0 <= hyp N K n k)%Qc.
Proof. exact hyp_nonneg. Qed.
Print Assumptions C03_pmf_nonneg.
Theorem C03_pmf_compose : forall N K m l i, K <= N -> l <= m -> m <= N ->
  qsum (map (fun j => (hyp N K m j * hyp m j l i)%Qc) (seq 0 (S m))) = hyp N K l i.
Proof. exact hyp_compose. Qed.
Print Assumptions C03_pmf_compose.

(* the iterator over the target index space visits it in row-major order (so the zip with the
   flat array hits the right cell) *)
Theorem C03_project_iter_enumerates : forall pfrom from pto,
  proj_iter (elements (map S pto)) pfrom from pto (repeat 0 (length pto)) 0 =
  map (project_value pfrom from pto) (indices (map S pto)).
Proof. exact proj_iter_spec. Qed.
Print Assumptions C03_project_iter_enumerates.

(* every entry k' of the projection is sum_k x[k] * prod_j Hypergeom(k'_j; n_j, k_j, m_j) *)
Theorem C03_project_refines_spec : forall (x : spectrum) to y,
  wf x -> project x to = inl y ->
  wf y /\ ashape y = to /\ forall k', inb to k' = true -> get y k' = Some (project_spec x to k').
Proof. exact project_refines_spec. Qed.
Print Assumptions C03_project_refines_spec.

Theorem C03_project_mass : forall (x : spectrum) to y, wf x -> project x to = inl y -> spectrum_sum y = spectrum_sum x.
Proof. exact project_mass. Qed.
Print Assumptions C03_project_mass.

Theorem C03_project_nonneg : forall (x : spectrum) to y, wf x -> project x to = inl y ->
  Forall (fun v => (0 <= v)%Qc) (adata x) -> Forall (fun v => (0 <= v)%Qc) (adata y).
Proof. exact project_nonneg. Qed.
Print Assumptions C03_project_nonneg.

Theorem C03_project_same_shape_is_identity : forall x : spectrum,
  wf x -> positive_shape (ashape x) -> project x (ashape x) = inl x.
Proof. exact project_id. Qed.
Print Assumptions C03_project_same_shape_is_identity.

Theorem C03_project_two_steps : forall (x : spectrum) s1 s2 y1 y2,
  wf x -> project x s1 = inl y1 -> project y1 s2 = inl y2 -> project x s2 = inl y2.
Proof. exact project_compose. Qed.
Print Assumptions C03_project_two_steps.

Theorem C03_project_marginalize_commute : forall (x : spectrum) a to y,
  wf x -> 1 < dimensions x -> a < dimensions x -> project x to = inl y ->
  project (q_sum_axis x a) (remove_axis a to) = inl (q_sum_axis y a).
Proof. exact project_marginalize_commute. Qed.
Print Assumptions C03_project_marginalize_commute.

(* targets larger than the source, zero, or of different dimensionality are errors - and only those *)
Theorem C03_project_ok_iff : forall (x : spectrum) to,
  (exists y, project x to = inl y) <->
  (positive_shape (ashape x) /\ positive_shape to /\ length (ashape x) = length to /\ Forall2 le to (ashape x)).
Proof. exact project_ok_iff. Qed.
Print Assumptions C03_project_ok_iff.

Theorem C03_project_errors : forall (x : spectrum) to,
  ((~ positive_shape (ashape x) \/ ~ positive_shape to) -> project x to = inr PZero) /\
  (positive_shape (ashape x) -> positive_shape to -> ashape x <> [] -> length (ashape x) <> length to ->
     project x to = inr (PUnequalDimensions (length (ashape x)) (length to))) /\
  (positive_shape (ashape x) -> positive_shape to -> length (ashape x) = length to -> ~ Forall2 le to (ashape x) ->
     exists d, project x to = inr (PInvalidProjection d (nth d (ashape x) 0 - 1) (nth d to 0 - 1)) /\
               nth d (ashape x) 0 < nth d to 0 /\ forall j, j < d -> nth j to 0 <= nth j (ashape x) 0).
Proof.
  intros x to. split; [exact (project_err_zero x to)|]. split; [exact (project_err_dims x to) | exact (project_err_larger x to)].
Qed.
Print Assumptions C03_project_errors.

(* non-vacuity: the 7 -> 3 projection of the repository's unit test *)
Definition ex7 : spectrum := {| adata := map qnat (seq 0 7); ashape := [7] |}.
Example C03_example : wf ex7 /\
  match project ex7 [3] with
  | inl y => map (fun q => (Qnum (this q), Zpos (Qden (this q)))) (adata y) = [(7, 3); (7, 1); (35, 3)]%Z
  | inr _ => False
  end.
Proof. split; [reflexivity|]. vm_compute. reflexivity. Qed.

(* projecting after creation equals projecting during creation when no selected genotype is missing or multiallelic *)
From Sfs Require Import Create CreateP CreateSpecP StatDefP CreateRelP.
Theorem C03_create_then_project : forall cfg cfgp to items st stp y,
  cfg_wf cfg -> cfg_wf cfgp -> r_pto cfg = None -> r_pto cfgp = Some (dec to) ->
  r_map cfgp = r_map cfg -> r_cols cfgp = r_cols cfg -> r_shape cfgp = to -> positive_shape to ->
  Forall (no_selected_ploidy cfg) items ->
  Forall (fun it => rec_complete (r_map cfg) (r_cols cfg) (item_gts it) = true) items ->
  run_items cfg false (init_rstate cfg) items = inl st ->
  run_items cfgp false (init_rstate cfgp) items = inl stp ->
  project {| adata := scs st; ashape := r_shape cfg |} to = inl y ->
  y = {| adata := scs stp; ashape := to |}.
Proof. exact create_then_project. Qed.
Print Assumptions C03_create_then_project.

Theorem C03_project_of_histogram : forall sh to keys y, positive_shape sh -> keys_ok sh keys -> project (hist sh keys) to = inl y ->
  forall k', inb to k' = true -> q_getd y k' = qsum (map (fun key => project_value (dec sh) key (dec to) k') keys).
Proof. exact project_hist. Qed.
Print Assumptions C03_project_of_histogram.

(* linearity in the values: every entry is sum_k x[k] * (a product that does not depend on x), so scaling the spectrum
   scales the projection, the projection of a sum is the sum of the projections, and acceptance depends on the shapes only *)
Theorem C03_project_scale : forall c (x : spectrum) to y, wf x -> project x to = inl y -> project (scale c x) to = inl (scale c y).
Proof. exact project_scale. Qed.
Print Assumptions C03_project_scale.

Theorem C03_project_add : forall (x x' : spectrum) to y y', wf x -> wf x' -> ashape x = ashape x' ->
  project x to = inl y -> project x' to = inl y' -> project (addsp x x') to = inl (addsp y y').
Proof. exact ProjectLinP.project_add. Qed.
Print Assumptions C03_project_add.

Theorem C03_project_error_shape_only : forall (x x' : spectrum) to e, wf x -> wf x' -> ashape x = ashape x' ->
  project x to = inr e -> project x' to = inr e.
Proof. exact project_error_shape_only. Qed.
Print Assumptions C03_project_error_shape_only.

