(* Property C04 - marginalization is the array sum over the removed axes.
   Only statements, `exact` of lemmas proved in Proofs/MargP.v, Print Assumptions, examples. *)
From Sfs Require Import Index ArrayM Scalar Spectrum IndexP ArrayP MargP.
From Coq Require Import Permutation Sorted.

Close Scope Qc_scope. Close Scope Q_scope. Open Scope nat_scope.

(* summing one axis: entry idx' of the result is the sum over the removed coordinate *)
Theorem C04_sum_axis : forall (x : spectrum) a idx',
  wf x -> positive_shape (ashape x) -> a < dimensions x -> inb (remove_axis a (ashape x)) idx' = true ->
  get (q_sum_axis x a) idx' = Some (qsum (map (fun i => q_getd x (insert_axis a i idx')) (seq 0 (nth a (ashape x) 0)))).
Proof. exact q_sum_axis_get. Qed.
Print Assumptions C04_sum_axis.

(* the result is the spectrum over the remaining axes, in their original order, whose entries are the
   sums over all indices of the removed axes *)
Theorem C04_marginalize_spec : forall (x : spectrum) axes y,
  wf x -> positive_shape (ashape x) -> marginalize x axes = inl y ->
  wf y /\ ashape y = drop_axes axes (ashape x) /\
  forall idx', inb (ashape y) idx' = true -> get y idx' = Some (marg_spec x axes idx').
Proof. exact marginalize_spec. Qed.
Print Assumptions C04_marginalize_spec.

(* independent of the order in which the axes are named *)
Theorem C04_marginalize_order_free : forall (x : spectrum) ax ax', Permutation ax ax' ->
  forall y, marginalize x ax = inl y <-> marginalize x ax' = inl y.
Proof. exact marginalize_perm. Qed.
Print Assumptions C04_marginalize_order_free.

(* jointly = one at a time (with the renumbering of the axes above the removed one) *)
Theorem C04_marginalize_one_at_a_time : forall (x : spectrum) a axes,
  wf x -> positive_shape (ashape x) -> valid_axes (dimensions x) (a :: axes) ->
  marginalize x (a :: axes) =
    match marginalize x [a] with
    | inl y1 => match axes with [] => inl y1 | _ => marginalize y1 (renumber a axes) end
    | inr e => inr e
    end.
Proof. exact marginalize_one_at_a_time. Qed.
Print Assumptions C04_marginalize_one_at_a_time.

Theorem C04_marginalize_mass : forall (x : spectrum) axes y,
  wf x -> positive_shape (ashape x) -> marginalize x axes = inl y -> spectrum_sum y = spectrum_sum x.
Proof. exact marginalize_mass. Qed.
Print Assumptions C04_marginalize_mass.

(* errors: exactly duplicate axes, out-of-range axes, or removing every axis - with precedence *)
Theorem C04_marginalize_ok_iff : forall (x : spectrum) axes,
  (exists y, marginalize x axes = inl y) <-> valid_axes (dimensions x) axes.
Proof. exact marginalize_ok_iff. Qed.
Print Assumptions C04_marginalize_ok_iff.

Theorem C04_marginalize_errors : forall (x : spectrum) axes,
  (~ NoDup axes -> exists a, marginalize x axes = inr (DuplicateAxis a) /\ In a axes) /\
  (NoDup axes -> ~ Forall (fun a => a < dimensions x) axes ->
     exists a, marginalize x axes = inr (AxisOutOfBounds a (dimensions x)) /\ In a axes /\ dimensions x <= a) /\
  (NoDup axes -> Forall (fun a => a < dimensions x) axes -> dimensions x <= length axes ->
     marginalize x axes = inr (TooManyAxes (length axes) (dimensions x))).
Proof.
  intros x axes. split; [exact (marginalize_err_duplicate x axes)|].
  split; [exact (marginalize_err_bounds x axes) | exact (marginalize_err_too_many x axes)].
Qed.
Print Assumptions C04_marginalize_errors.

(* --marginalize-keep K = --marginalize-remove (complement of K), in increasing order *)
Theorem C04_keep_is_remove_complement : forall d keep,
  NoDup (keep_to_remove d keep) /\ StronglySorted lt (keep_to_remove d keep) /\
  forall i, In i (keep_to_remove d keep) <-> (i < d /\ ~ In i keep).
Proof. exact keep_to_remove_spec. Qed.
Print Assumptions C04_keep_is_remove_complement.

(* non-vacuity *)
Definition ex_ramp : spectrum := {| adata := map qnat (seq 0 27); ashape := [3; 3; 3] |}.
Example C04_example : wf ex_ramp /\ positive_shape (ashape ex_ramp) /\ valid_axes (dimensions ex_ramp) [2; 0] /\
  match marginalize ex_ramp [2; 0] with
  | inl y => ashape y = [3] /\ adata y = map qnat [90; 117; 144]
  | inr _ => False
  end.
Proof.
  split; [reflexivity|]. split; [repeat constructor|]. split.
  - split; [|split]; [repeat constructor; cbn; intuition lia | repeat constructor | cbn; lia].
  - vm_compute. split; reflexivity.
Qed.

(* marginalizing a population out of the joint spectrum of complete data = the spectrum of the remaining populations:
   the created spectrum is the histogram of the sites' keys (C06_created_spectrum_is_histogram) and the marginal of a
   histogram over an axis is the histogram of the keys with that coordinate removed *)
From Sfs Require Import Create StatDefP CreateRelP.
Theorem C04_marginal_of_histogram : forall sh keys a, positive_shape sh -> 1 < length sh -> a < length sh -> keys_ok sh keys ->
  q_sum_axis (hist sh keys) a = hist (remove_axis a sh) (map (remove_axis a) keys).
Proof. exact marg_hist. Qed.
Print Assumptions C04_marginal_of_histogram.

(* ---- beyond the rationals: spectra holding infinities and NaN (Model/Ext.v). A marginal cell is the IEEE sum, in axis
   order, of the entries along the removed axis: a NaN is carried along, so is an infinity, opposite infinities give NaN,
   nothing is dropped; on finite spectra this is the rational model above. *)
From Sfs Require Import Ext ExtP.
Theorem C04_ext_sum_axis_spec : forall (x : espectrum) a idx',
  wf x -> positive_shape (ashape x) -> a < dimensions x -> inb (remove_axis a (ashape x)) idx' = true ->
  get (e_sum_axis x a) idx' = Some (ev_sum (map (fun i => getd ev_zero x (insert_axis a i idx')) (seq 0 (nth a (ashape x) 0)))).
Proof. exact e_sum_axis_spec. Qed.
Print Assumptions C04_ext_sum_axis_spec.

Theorem C04_ext_sum_finite : forall l : list Qc, ev_sum (map Fin l) = Fin (qsum l).
Proof. exact ev_sum_fin. Qed.
Print Assumptions C04_ext_sum_finite.

Theorem C04_ext_sum_nan : forall l, In NaN l -> ev_sum l = NaN.
Proof. exact ev_sum_nan. Qed.
Print Assumptions C04_ext_sum_nan.

Theorem C04_ext_sum_pinf : forall l, In PInf l -> ~ In NInf l -> ~ In NaN l -> ev_sum l = PInf.
Proof. exact ev_sum_pinf. Qed.
Print Assumptions C04_ext_sum_pinf.

Theorem C04_ext_sum_ninf : forall l, In NInf l -> ~ In PInf l -> ~ In NaN l -> ev_sum l = NInf.
Proof. exact ev_sum_ninf. Qed.
Print Assumptions C04_ext_sum_ninf.

Theorem C04_ext_sum_opposite : forall l, In PInf l -> In NInf l -> ev_sum l = NaN.
Proof. exact ev_sum_opposite. Qed.
Print Assumptions C04_ext_sum_opposite.

Theorem C04_ext_nan_never_dropped : forall (x : espectrum) a idx' i,
  wf x -> positive_shape (ashape x) -> a < dimensions x -> inb (remove_axis a (ashape x)) idx' = true ->
  i < nth a (ashape x) 0 -> getd ev_zero x (insert_axis a i idx') = NaN ->
  get (e_sum_axis x a) idx' = Some NaN.
Proof. exact e_sum_axis_nan. Qed.
Print Assumptions C04_ext_nan_never_dropped.

Theorem C04_ext_marginalize_on_finite : forall (x : spectrum) axes,
  e_marginalize (embed x) axes = match marginalize x axes with inl y => inl (embed y) | inr e => inr e end.
Proof. exact e_marginalize_embed. Qed.
Print Assumptions C04_ext_marginalize_on_finite.

Example C04_ext_example :
  let q (z : Z) := Fin (Q2Qc (z # 1)) in
  adata (e_sum_axis {| adata := [q 1%Z; PInf; q 3%Z; q 4%Z; NInf; NaN]; ashape := [2; 3] |} 0) = [q 5%Z; NaN; NaN] /\
  adata (e_sum_axis {| adata := [q 1%Z; PInf; q 3%Z; q 4%Z; NInf; NaN]; ashape := [2; 3] |} 1) = [PInf; NaN].
Proof. cbv zeta. split; vm_compute; reflexivity. Qed.
