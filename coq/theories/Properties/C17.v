(* Property C17 - every invocation ends in success or a diagnosed error, never a panic (partial).
   What is proved: the panic skeleton of the spectrum commands (Model/Panic.v: every unsigned subtraction, integer
   division, index and panicking constructor of fold / stat / view as repaired, with the source site of each) never
   reaches a Panic outcome on any spectrum the readers accept, for every statistic, every shape (axes of length 1 and 2
   included), every option value. What is exercised only: clap, the VCF/BCF decoders (noodles), allocation. *)
From Sfs Require Import Index Panic IndexP PanicP Npy Text NpyP TextP ReadOkP Create PanicCreate CreateP PanicCreateP.
From Coq Require Import Sorted.

(* what the readers guarantee for ANY input bytes: an accepted spectrum has at least one axis (the header grammars
   yield at least one entry), no axis of length zero, and as many values as the product of its shape - exactly the
   guard [read_ok] under which the panic skeleton is proved panic-free *)
Theorem C17_accepted_spectrum_is_sane : forall inp sh vals, read_spectrum inp = inl (sh, vals) ->
  sh <> [] /\ existsb (N.eqb 0) sh = false /\ N.of_nat (length vals) = nelements sh.
Proof. exact read_spectrum_ok. Qed.
Print Assumptions C17_accepted_spectrum_is_sane.

Theorem C17_accepted_spectrum_meets_guard : forall inp sh vals, read_spectrum inp = inl (sh, vals) ->
  read_ok (map N.to_nat sh) (length vals).
Proof. exact read_spectrum_read_ok. Qed.
Print Assumptions C17_accepted_spectrum_meets_guard.

Theorem C17_short_input_is_no_format : forall inp, (length inp < 6)%nat -> detect_format inp = None.
Proof. exact detect_short. Qed.
Print Assumptions C17_short_input_is_no_format.

Theorem C17_fold_never_panics : forall sh ndata, read_ok sh ndata -> no_panic (fold_skel sh ndata).
Proof. exact fold_no_panic. Qed.
Print Assumptions C17_fold_never_panics.

(* all 14 statistics, every accepted shape: wrong dimensionality is a diagnosed error, degenerate sizes give NaN *)
Theorem C17_stat_never_panics : forall s sh ndata, read_ok sh ndata -> no_panic (stat_skel s sh ndata).
Proof. exact stat_no_panic. Qed.
Print Assumptions C17_stat_never_panics.

(* view with any combination of options and any option values (duplicate / out-of-range axes, any projection target) *)
Theorem C17_view_never_panics : forall o sh ndata, read_ok sh ndata -> no_panic (view_skel o sh ndata).
Proof. exact view_no_panic. Qed.
Print Assumptions C17_view_never_panics.

Theorem C17_projection_never_panics : forall sh to, sh <> [] -> no_panic (project_skel sh to).
Proof. exact project_skel_no_panic_fixed. Qed.
Print Assumptions C17_projection_never_panics.

Theorem C17_index_sum_never_divides_by_zero : forall sh fl, positive_shape sh -> no_panic (index_sum_skel sh (elements sh) fl).
Proof. exact index_sum_skel_no_panic. Qed.
Print Assumptions C17_index_sum_never_divides_by_zero.

(* `create` below the decoders: for every configuration the builder accepts (from distinct sample columns), every stream of
   decoded records - any number of genotypes per record, any ploidy, any class - strict or not, the skeleton of the
   run (population-id indexing, sample lookups, spectrum indexing by the site's counts, the projection iterator and the
   hypergeometric kernel's subtractions) ends in Done or Fail; Done exactly when the modelled run yields a spectrum *)
Theorem C17_create_never_panics : forall cfg strict items, cfg_wf cfg -> no_panic (create_skel cfg strict (init_rstate cfg) items).
Proof. exact create_skel_no_panic. Qed.
Print Assumptions C17_create_never_panics.

Theorem C17_create_done_iff_spectrum : forall cfg strict items, cfg_wf cfg ->
  (create_skel cfg strict (init_rstate cfg) items = Done tt <-> exists st, run_items cfg strict (init_rstate cfg) items = inl st).
Proof. exact create_skel_done_iff. Qed.
Print Assumptions C17_create_done_iff_spectrum.

(* the classes must be those of real genotypes: a made-up class `called 3` would index out of bounds *)
Theorem C17_create_needs_classified_genotypes :
  ~ (forall cfg st gs, cfg_wf cfg -> sstate_ok cfg st -> no_panic (record_skel cfg st gs)).
Proof. exact record_skel_arbitrary_classes_refuted. Qed.
Print Assumptions C17_create_needs_classified_genotypes.

(* the npy writer (repaired) refuses a header that does not fit the 2-byte length field instead of panicking *)
Theorem C17_npy_writer_refuses_long_headers : forall sh vals, write_npy_checked sh vals = None <-> (65536 <= header_len_of sh)%N.
Proof. exact write_npy_checked_none. Qed.
Print Assumptions C17_npy_writer_refuses_long_headers.

Close Scope N_scope. Open Scope nat_scope.
(* the guard is needed: without it the skeleton does panic (the unrepaired code did) *)
Example C17_zero_axis_would_panic : fold_skel [0] 0 = Panic 1701%N /\ stat_skel SS [0] 0 = Panic 3841%N /\
  view_skel {| v_marg := None; v_project := None; v_mask := true; v_normalize := false |} [0] 0 = Panic 19001%N.
Proof. repeat split; reflexivity. Qed.
(* non-vacuity: degenerate but accepted shapes *)
Example C17_degenerate_shapes_ok : read_ok [1] 1 /\ read_ok [2; 1] 2 /\ stat_skel SDFuLi [1] 1 = Done tt /\ stat_skel SFst [1; 2] 2 = Done tt.
Proof. repeat split; try discriminate; repeat constructor. Qed.
