(* Property C17 - every invocation ends in success or a diagnosed error, never a panic (partial).
   What is proved: the panic skeleton of the spectrum commands (Model/Panic.v: every unsigned subtraction, integer
   division, index and panicking constructor of fold / stat / view as repaired, with the source site of each) never
   reaches a Panic outcome on any spectrum the readers accept, for every statistic, every shape (axes of length 1 and 2
   included), every option value. What is exercised only: clap, the VCF/BCF decoders (noodles), allocation. *)
From Sfs Require Import Index Panic IndexP PanicP Npy Text NpyP TextP ReadOkP.
From Coq Require Import Sorted.

(* what the readers guarantee for ANY input bytes: an accepted spectrum has at least one axis (the header grammars
   yield at least one entry), no axis of length zero, and as many values as the product of its shape - exactly the
   guard [read_ok] under which the panic skeleton is proved panic-free *)
Theorem C17_accepted_spectrum_is_sane : forall inp sh vals, read_spectrum inp = inl (sh, vals) ->
  sh <> [] /\ existsb (N.eqb 0) sh = false /\ N.of_nat (length vals) = nelements sh.
Proof. exact read_spectrum_ok. Qed.
Print Assumptions C17_accepted_spectrum_is_sane.

Theorem C17_accepted_spectrum_meets_guard : forall inp sh vals, read_spectrum inp = inl (sh, vals) ->
  read_ok (map N.to_nat sh) (length vals).
Proof. exact read_spectrum_read_ok. Qed.
Print Assumptions C17_accepted_spectrum_meets_guard.

Theorem C17_short_input_is_no_format : forall inp, (length inp < 6)%nat -> detect_format inp = None.
Proof. exact detect_short. Qed.
Print Assumptions C17_short_input_is_no_format.

Theorem C17_fold_never_panics : forall sh ndata, read_ok sh ndata -> no_panic (fold_skel sh ndata).
Proof. exact fold_no_panic. Qed.
Print Assumptions C17_fold_never_panics.

(* all 14 statistics, every accepted shape: wrong dimensionality is a diagnosed error, degenerate sizes give NaN *)
Theorem C17_stat_never_panics : forall s sh ndata, read_ok sh ndata -> no_panic (stat_skel s sh ndata).
Proof. exact stat_no_panic. Qed.
Print Assumptions C17_stat_never_panics.

(* view with any combination of options and any option values (duplicate / out-of-range axes, any projection target) *)
Theorem C17_view_never_panics : forall o sh ndata, read_ok sh ndata -> no_panic (view_skel o sh ndata).
Proof. exact view_no_panic. Qed.
Print Assumptions C17_view_never_panics.

Theorem C17_projection_never_panics : forall sh to, sh <> [] -> no_panic (project_skel sh to).
Proof. exact project_skel_no_panic_fixed. Qed.
Print Assumptions C17_projection_never_panics.

Theorem C17_index_sum_never_divides_by_zero : forall sh fl, positive_shape sh -> no_panic (index_sum_skel sh (elements sh) fl).
Proof. exact index_sum_skel_no_panic. Qed.
Print Assumptions C17_index_sum_never_divides_by_zero.

Close Scope N_scope. Open Scope nat_scope.
(* the guard is needed: without it the skeleton does panic (the unrepaired code did) *)
Example C17_zero_axis_would_panic : fold_skel [0] 0 = Panic 1701%N /\ stat_skel SS [0] 0 = Panic 3841%N /\
  view_skel {| v_marg := None; v_project := None; v_mask := true; v_normalize := false |} [0] 0 = Panic 19001%N.
Proof. repeat split; reflexivity. Qed.
(* non-vacuity: degenerate but accepted shapes *)
Example C17_degenerate_shapes_ok : read_ok [1] 1 /\ read_ok [2; 1] 2 /\ stat_skel SDFuLi [1] 1 = Done tt /\ stat_skel SFst [1; 2] 2 = Done tt.
Proof. repeat split; try discriminate; repeat constructor. Qed.
