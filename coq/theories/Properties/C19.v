(* Property C19 - array, axis-view and iterator API invariants.
   Only statements, `exact` of lemmas proved in Proofs/, Print Assumptions, non-vacuity examples. *)
From Sfs Require Import Index ArrayM IndexP ArrayP ArraySetP.
From Coq Require Import ZArith.

(* flat row-major position and multi-index are in bijection *)
Theorem C19_flat_unflat_bijection : forall sh, positive_shape sh ->
  (forall i, i < elements sh -> inb sh (unflat sh i) = true /\ flat sh (unflat sh i) = i) /\
  (forall idx, inb sh idx = true -> flat sh idx < elements sh /\ unflat sh (flat sh idx) = idx).
Proof.
  intros sh Hp. split.
  - intros i Hi. split; [exact (inb_unflat sh i Hp Hi) | exact (flat_unflat sh i Hp Hi)].
  - intros idx H. split; [exact (flat_lt sh idx H) | exact (unflat_flat sh idx H)].
Qed.
Print Assumptions C19_flat_unflat_bijection.

(* the index computation of the code (n /= v; flat / n; flat %= n) is that bijection *)
Theorem C19_index_from_flat_is_unflat : forall sh i, positive_shape sh -> index_from_flat sh i = unflat sh i.
Proof. exact index_from_flat_unflat. Qed.
Print Assumptions C19_index_from_flat_is_unflat.

(* the row-major enumeration visits every in-bounds index exactly once, in order *)
Theorem C19_indices_row_major : forall sh, positive_shape sh ->
  indices sh = map (unflat sh) (seq 0 (elements sh)) /\ NoDup (indices sh) /\
  (forall idx, In idx (indices sh) <-> inb sh idx = true).
Proof.
  intros sh Hp. split; [exact (indices_unflat sh Hp)|]. split; [exact (NoDup_indices sh Hp)|].
  intros idx. exact (in_indices sh idx Hp).
Qed.
Print Assumptions C19_indices_row_major.

(* iter_indices: k calls of next yield index 0,1,.. in row-major order, then None forever;
   the reported length is the number of items still to come *)
Theorem C19_iter_indices : forall sh k, positive_shape sh ->
  ind_run k sh 0 (elements sh) =
    (map (fun m => if m <? elements sh then Some (unflat sh m) else None) (seq 0 k),
     Nat.min k (elements sh)) /\
  ind_len (snd (ind_run k sh 0 (elements sh))) (elements sh) = elements sh - k.
Proof.
  intros sh k Hp. pose proof (ind_run_spec k Hp (Nat.le_0_l (elements sh))) as H.
  split; [exact H|]. rewrite H. unfold ind_len. cbn [snd]. lia.
Qed.
Print Assumptions C19_iter_indices.

(* indexing returns the element at the row-major position; anything else is None *)
Theorem C19_get : forall (A : Type) (x : arr A) idx, wf x ->
  get x idx = (if inb (ashape x) idx then nth_error (adata x) (flat (ashape x) idx) else None) /\
  (get x idx = None <-> inb (ashape x) idx = false).
Proof. intros A x idx Hwf. split; [exact (get_spec x idx) | exact (get_none_iff idx Hwf)]. Qed.
Print Assumptions C19_get.

Theorem C19_get_at_index : forall (A : Type) (x : arr A) i,
  positive_shape (ashape x) -> i < elements (ashape x) -> get x (unflat (ashape x) i) = nth_error (adata x) i.
Proof. intros A x i. exact (@get_unflat A x i). Qed.
Print Assumptions C19_get_at_index.

(* out-of-range axis or position requests are None (never a panic value in the model) *)
Theorem C19_get_axis_none_iff : forall (A : Type) (x : arr A) a i,
  get_axis x a i = None <-> (dimensions x <= a \/ nth a (ashape x) 0 <= i).
Proof. intros A x a i. exact (get_axis_none_iff x a i). Qed.
Print Assumptions C19_get_axis_none_iff.

(* an axis view at (a,i): for every call history, call m yields the element whose a-th index is i
   and whose remaining indices are the m-th in row-major order; after the last one it yields None
   forever; len after k calls is max 0 (elements - k) *)
Theorem C19_view_iter_spec : forall (A : Type) (x : arr A) a i v k,
  wf x -> positive_shape (ashape x) -> get_axis x a i = Some v ->
  let sh' := remove_axis a (ashape x) in
  fst (vrun k v (viter_new v)) =
    map (fun m => if m <? elements sh' then get x (insert_axis a i (unflat sh' m)) else None) (seq 0 k)
  /\ vlen v (snd (vrun k v (viter_new v))) = elements sh' - k.
Proof. intros A x a i v k. exact (@view_iter_spec A x a i v k). Qed.
Print Assumptions C19_view_iter_spec.

(* the iterator never stops early: every in-range position is Some *)
Theorem C19_view_iter_total : forall (A : Type) (x : arr A) a i v,
  wf x -> positive_shape (ashape x) -> get_axis x a i = Some v ->
  map Some (view_items v) = map (fun idx' => get x (insert_axis a i idx')) (indices (remove_axis a (ashape x)))
  /\ forall idx', inb (remove_axis a (ashape x)) idx' = true -> get x (insert_axis a i idx') <> None.
Proof.
  intros A x a i v Hwf Hp Hga. split; [exact (@view_items_get A x a i v Hwf Hp Hga)|].
  intros idx' Hin. apply get_inb_some; [exact Hwf|].
  apply get_axis_some in Hga as (Ha & Hi & _). unfold dimensions in Ha.
  rewrite inb_insert_axis by exact Ha. apply Nat.ltb_lt in Hi. rewrite Hi. exact Hin.
Qed.
Print Assumptions C19_view_iter_total.

(* iter_axis: call m yields the view at position m, then None forever; len = remaining *)
Theorem C19_axis_iter : forall (A : Type) (x : arr A) a k,
  axis_run k x a 0 = (map (fun m => get_axis x a m) (seq 0 k), Nat.min k (nth a (ashape x) 0)) /\
  axis_len x a (snd (axis_run k x a 0)) = nth a (ashape x) 0 - k.
Proof.
  intros A x a k. pose proof (@axis_run_spec A x a k 0 (Nat.le_0_l _)) as H.
  split; [exact H|]. rewrite H. unfold axis_len. cbn [snd]. lia.
Qed.
Print Assumptions C19_axis_iter.

(* summing along an axis equals adding the views, in axis order *)
Theorem C19_sum_axis : forall (A : Type) (zero : A) (add : A -> A -> A) (x : arr A) a idx',
  wf x -> positive_shape (ashape x) -> a < dimensions x ->
  inb (remove_axis a (ashape x)) idx' = true ->
  get (sum_axis zero add x a) idx' =
    Some (fold_left add (map (fun i => getd zero x (insert_axis a i idx')) (seq 0 (nth a (ashape x) 0))) zero).
Proof. intros A zero add x a idx'. exact (@sum_axis_spec A zero add x a idx'). Qed.
Print Assumptions C19_sum_axis.

(* non-vacuity: the hypotheses are met by a concrete 2x3x2 array, and the view iterator
   computes the expected history (items of the view at axis 0, position 1, then None twice) *)
Definition ex_arr : arr Z := {| adata := map Z.of_nat (seq 0 12); ashape := [2; 3; 2] |}.
Example C19_example_hyps : wf ex_arr /\ positive_shape (ashape ex_arr) /\
  exists v, get_axis ex_arr 0 1 = Some v /\
            fst (vrun 8 v (viter_new v)) = [Some 6; Some 7; Some 8; Some 9; Some 10; Some 11; None; None]%Z.
Proof.
  split; [reflexivity|]. split; [repeat constructor|].
  eexists. split; [reflexivity|]. vm_compute. reflexivity.
Qed.

(* the mutable path (get_mut / IndexMut; [set] = get_mut followed by a write) addresses exactly what the shared path
   addresses: it answers None exactly when get does, in particular for every index that is out of range on some axis
   whatever its stride-weighted sum; what is written is read back at that index and every other index reads as before;
   at the level of the data exactly the row-major position of the index changes *)
Theorem C19_get_mut_none_iff_get_none : forall (A : Type) (x : arr A) idx v,
  (exists y, set x idx v = Some y) <-> (exists a, get x idx = Some a).
Proof. exact set_some_iff_get_some. Qed.
Print Assumptions C19_get_mut_none_iff_get_none.

Theorem C19_get_mut_out_of_range : forall (A : Type) (x : arr A) idx v, inb (ashape x) idx = false -> set x idx v = None.
Proof. exact set_out_of_range. Qed.
Print Assumptions C19_get_mut_out_of_range.

Theorem C19_write_read_back : forall (A : Type) (x y : arr A) idx v, set x idx v = Some y -> get y idx = Some v.
Proof. exact get_set_same. Qed.
Print Assumptions C19_write_read_back.

Theorem C19_write_frame : forall (A : Type) (x y : arr A) idx idx' v, set x idx v = Some y -> idx' <> idx -> get y idx' = get x idx'.
Proof. exact get_set_other. Qed.
Print Assumptions C19_write_frame.

Theorem C19_write_changes_one_position : forall (A : Type) (x y : arr A) idx v,
  wf x -> set x idx v = Some y ->
  inb (ashape x) idx = true /\ nth_error (adata y) (flat (ashape x) idx) = Some v /\
  forall i, i <> flat (ashape x) idx -> nth_error (adata y) i = nth_error (adata x) i.
Proof. exact set_changes_one_position. Qed.
Print Assumptions C19_write_changes_one_position.

Theorem C19_write_keeps_wf : forall (A : Type) (x y : arr A) idx v, wf x -> set x idx v = Some y -> wf y.
Proof. exact set_wf. Qed.
Print Assumptions C19_write_keeps_wf.


(* View::to_array: the owned copy of an axis view is a well-formed array over the remaining axes, and indexing it is
   indexing the parent with the fixed coordinate put back (so everything above applies to the copy as well) *)
From Sfs Require Import ToArrayP.
Theorem C19_view_to_array : forall (A : Type) (x : arr A) a i v,
  wf x -> positive_shape (ashape x) -> get_axis x a i = Some v ->
  wf (view_to_array v) /\ ashape (view_to_array v) = remove_axis a (ashape x) /\
  forall idx', get (view_to_array v) idx' =
               if inb (remove_axis a (ashape x)) idx' then get x (insert_axis a i idx') else None.
Proof. exact to_array_spec. Qed.
Print Assumptions C19_view_to_array.


(* The 64-bit layer (Model/Word.v: usize arithmetic with checked, saturating and overflowing operations written out) under
   the unbounded index model used by every theorem above: on every array that Array::new accepts, the word-level
   computation of strides and flat positions never overflows and IS the model's. *)
From Sfs Require Import Word WordP.
Open Scope N_scope.
(* Array::new never accepts on a wrapped product (F12) *)
Theorem C19_word_array_new_sound : forall len sh, array_new_w len sh = true -> prodN sh = len /\ len <= wmax.
Proof. exact array_new_w_sound. Qed.
Print Assumptions C19_word_array_new_sound.

Theorem C19_word_array_new_complete : forall len sh,
  Forall (fun v => 0 < v) sh -> prodN sh = len -> len <= wmax -> array_new_w len sh = true.
Proof. exact array_new_w_complete. Qed.
Print Assumptions C19_word_array_new_complete.

Theorem C19_word_overflowing_shape_rejected : forall sh, wmax < prodN sh -> elements_w 1 sh = None.
Proof. exact elements_w_overflow. Qed.
Print Assumptions C19_word_overflowing_shape_rejected.

Theorem C19_word_empty_array_accepted : forall pre post,
  Forall (fun v => 0 < v) pre -> prodN pre <= wmax -> array_new_w 0 (pre ++ 0 :: post) = true.
Proof. exact array_new_w_zero_axis. Qed.
Print Assumptions C19_word_empty_array_accepted.

(* Shape::strides never overflows, whatever the shape (F22), and is exact on every non-empty accepted array *)
Theorem C19_word_strides_fit : forall sh, Forall (fun s => s <= wmax) (strides_w sh).
Proof. exact strides_w_fit. Qed.
Print Assumptions C19_word_strides_fit.

Theorem C19_word_strides_exact : forall sh,
  Forall (fun v => 0 < v) sh -> prodN sh <= wmax -> strides_w sh = stridesN sh.
Proof. exact strides_w_exact. Qed.
Print Assumptions C19_word_strides_exact.

Theorem C19_word_strides_unrepaired_overflow_refuted :
  array_new_w 0 [0; wmax; 2] = true /\ chkprod [wmax; 2] = None /\ strides_w [0; wmax; 2] = [wmax; 2; 1].
Proof. exact strides_unrepaired_overflow_refuted. Qed.
Print Assumptions C19_word_strides_unrepaired_overflow_refuted.

(* Strides::flat_index on an accepted array: never an overflow, inside the data, the row-major position *)
Theorem C19_word_flat_index_exact : forall len sh idx,
  array_new_w len sh = true ->
  flat_index_w (strides_w sh) sh idx =
    if Nat.eqb (length sh) (length idx) && all_ltN idx sh then WSome (flatN sh idx) else WNone.
Proof. exact flat_index_w_exact. Qed.
Print Assumptions C19_word_flat_index_exact.

Theorem C19_word_flat_index_in_data : forall len sh idx f,
  array_new_w len sh = true -> flat_index_w (strides_w sh) sh idx = WSome f -> f < len.
Proof. exact flat_index_w_in_data. Qed.
Print Assumptions C19_word_flat_index_in_data.

Theorem C19_word_flat_index_never_overflows : forall len sh idx,
  array_new_w len sh = true -> flat_index_w (strides_w sh) sh idx <> WOverflow.
Proof. exact flat_index_w_never_overflows. Qed.
Print Assumptions C19_word_flat_index_never_overflows.

(* ... and it is Index.flat_index, the function all the theorems above are about *)
Theorem C19_word_refines_index_model : forall len (sh idx : list nat),
  array_new_w len (map N.of_nat sh) = true ->
  flat_index_w (strides_w (map N.of_nat sh)) (map N.of_nat sh) (map N.of_nat idx) =
    match flat_index (strides sh) sh idx with Some f => WSome (N.of_nat f) | None => WNone end.
Proof. exact flat_index_w_refines. Qed.
Print Assumptions C19_word_refines_index_model.

Example C19_word_examples :
  array_new_w 24 [2; 3; 4] = true /\ strides_w [2; 3; 4] = [12; 4; 1] /\
  flat_index_w (strides_w [2; 3; 4]) [2; 3; 4] [1; 2; 3] = WSome 23 /\
  array_new_w 0 [4294967296; 4294967296] = false /\ array_new_w 0 [9223372036854775808; 4; 0] = false.
Proof. exact word_examples. Qed.
Close Scope N_scope.

(* Array::get_axis at word level (Model/Word.v): where the view's data starts. On a non-empty accepted array it is
   index * stride, inside the data, as in ArrayM.get_axis; on an empty array every view is empty; a view exists exactly for
   an axis of the array and a position on it, with no other outcome (F27: the unrepaired `index * stride` overflowed on an
   accepted empty array with saturated strides - the refutation is kept). *)
Open Scope N_scope.
Theorem C19_word_axis_view_start : forall len sh a i,
  array_new_w len sh = true -> Forall (fun v => 0 < v) sh -> (a < length sh)%nat -> i < nth a sh 0 ->
  axis_offset_w len sh a i = Some (i * nth a (stridesN sh) 0) /\ i * nth a (stridesN sh) 0 < len.
Proof. exact axis_offset_w_exact. Qed.
Print Assumptions C19_word_axis_view_start.

Theorem C19_word_axis_view_of_empty_array : forall sh a i,
  array_new_w 0 sh = true -> (a < length sh)%nat -> i < nth a sh 0 -> axis_offset_w 0 sh a i = Some 0.
Proof. exact axis_offset_w_empty. Qed.
Print Assumptions C19_word_axis_view_of_empty_array.

Theorem C19_word_axis_view_exists_iff : forall len sh a i,
  (exists o, axis_offset_w len sh a i = Some o /\ o <= len) <-> ((a < length sh)%nat /\ i < nth a sh 0).
Proof. exact axis_offset_w_some_iff. Qed.
Print Assumptions C19_word_axis_view_exists_iff.

Theorem C19_word_axis_view_unrepaired_overflow_refuted :
  array_new_w 0 [0; 3; wmax] = true /\ axis_offset_unrepaired_w [0; 3; wmax] 1 2 = WOverflow /\
  axis_offset_w 0 [0; 3; wmax] 1 2 = Some 0.
Proof. exact axis_offset_unrepaired_overflow_refuted. Qed.
Print Assumptions C19_word_axis_view_unrepaired_overflow_refuted.

Theorem C19_word_axis_view_refines_model : forall len (sh : list nat) a i,
  array_new_w len (map N.of_nat sh) = true -> Forall (fun v => (0 < v)%nat) sh -> (a < length sh)%nat -> (i < nth a sh 0%nat)%nat ->
  axis_offset_w len (map N.of_nat sh) a (N.of_nat i) = Some (N.of_nat (i * nth a (strides sh) 0%nat)).
Proof. exact axis_offset_w_refines. Qed.
Print Assumptions C19_word_axis_view_refines_model.
Close Scope N_scope.
