(* Property C11 - a site's contribution is independent of earlier sites (additive, order-free). *)
From Sfs Require Import Index ArrayM Scalar Spectrum Project Create SampleParse Npy Text Container IndexP ArrayP BinomP ProjectP CreateP CreateSpecP SampleParseP SampleParseGenP ContainerP SampleFieldP Frames FramesP.
From Coq Require Import Permutation.
Close Scope string_scope.

Close Scope Qc_scope. Close Scope Q_scope. Open Scope nat_scope.

(* the result for a record does not depend on the reader state left by earlier records (counts, totals, skipped list, projection buffer) - for ALL states of the right dimensions, not only reachable ones *)
Theorem C11_read_site_state_free : forall m cols pto st st' gs d,
  sstate_dims d st -> sstate_dims d st' -> length (s_tobuf st) = length (s_tobuf st') ->
  snd (read_site m cols pto st gs) = snd (read_site m cols pto st' gs).
Proof. exact (@read_site_state_free). Qed.
Print Assumptions C11_read_site_state_free.

(* dimensions of the state are preserved *)
Theorem C11_state_dims_preserved : forall m cols pto st gs d,
  sstate_dims d st -> (forall to, pto = Some to -> length (s_tobuf st) = length to) ->
  sstate_dims d (fst (read_site m cols pto st gs)) /\
  (forall to, pto = Some to -> length (s_tobuf (fst (read_site m cols pto st gs))) = length to).
Proof. exact (@read_site_dims). Qed.
Print Assumptions C11_state_dims_preserved.

(* running from any state = running from the initial state plus the spectrum so far *)
Theorem C11_run_from_any_state : forall cfg strict st0 items,
  cfg_wf cfg -> length (scs st0) = elements (r_shape cfg) ->
  sstate_dims (number_of_populations (r_map cfg)) (rs st0) ->
  (forall to, r_pto cfg = Some to -> length (s_tobuf (rs st0)) = length to) ->
  match run_items cfg strict st0 items, run_items cfg strict (init_rstate cfg) items with
  | inl st, inl st' => scs st = qzip_add (scs st0) (scs st') /\ n_sites st = n_sites st0 + n_sites st' /\
                       n_skipped st = n_skipped st0 + n_skipped st'
  | inr e, inr e' => e = e'
  | _, _ => False
  end.
Proof. exact (@run_items_shift). Qed.
Print Assumptions C11_run_from_any_state.

(* spectrum of a concatenation = element-wise sum of the spectra of the parts *)
Theorem C11_concatenation_is_sum : forall cfg strict i1 i2 st1 st2,
  cfg_wf cfg ->
  run_items cfg strict (init_rstate cfg) i1 = inl st1 ->
  run_items cfg strict (init_rstate cfg) i2 = inl st2 ->
  exists st, run_items cfg strict (init_rstate cfg) (i1 ++ i2) = inl st /\
             scs st = qzip_add (scs st1) (scs st2) /\
             n_sites st = n_sites st1 + n_sites st2 /\ n_skipped st = n_skipped st1 + n_skipped st2.
Proof. exact (@create_app). Qed.
Print Assumptions C11_concatenation_is_sum.

(* a failing part makes the concatenation fail with the same error *)
Theorem C11_concatenation_error : forall cfg strict i1 i2 e,
  cfg_wf cfg ->
  (run_items cfg strict (init_rstate cfg) i1 = inr e \/
   (exists st1, run_items cfg strict (init_rstate cfg) i1 = inl st1) /\ run_items cfg strict (init_rstate cfg) i2 = inr e) ->
  run_items cfg strict (init_rstate cfg) (i1 ++ i2) = inr e.
Proof. exact (@create_app_err). Qed.
Print Assumptions C11_concatenation_error.

(* any permutation of the records yields the same spectrum (exact arithmetic) *)
Theorem C11_permutation_invariant : forall cfg strict items items' st,
  cfg_wf cfg -> Permutation items items' ->
  run_items cfg strict (init_rstate cfg) items = inl st ->
  exists st', run_items cfg strict (init_rstate cfg) items' = inl st' /\
              scs st' = scs st /\ n_sites st' = n_sites st /\ n_skipped st' = n_skipped st.
Proof. exact (@create_perm). Qed.
Print Assumptions C11_permutation_invariant.

