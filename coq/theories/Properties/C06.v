(* Property C06 - statistics equal their definitions on genotypes and the published estimators. *)
From Sfs Require Import Index ArrayM Scalar Spectrum Project Create Stat IndexP ArrayP MargP FoldP StatDefP StatInvP ViewP CreateP CreateSpecP CreateRelP.

Close Scope Qc_scope. Close Scope Q_scope. Open Scope nat_scope.

(* the spectrum produced by create is the histogram of per-site count vectors (C01); a weighted sum over cells is a sum over sites *)
Theorem C06_histogram_lemma : forall sh keys (g : list nat -> Qc),
  positive_shape sh -> keys_ok sh keys ->
  qsum (map (fun k => (q_getd (hist sh keys) k * g k)%Qc) (indices sh)) = qsum (map g keys).
Proof. exact (@hist_sum). Qed.
Print Assumptions C06_histogram_lemma.

(* chromosome level: unordered pairs that differ = k (n - k) *)
Theorem C06_pairs_differing : forall l,
  pairs_differing l = count_true l * (length l - count_true l).
Proof. exact (@pairs_differing_count). Qed.
Print Assumptions C06_pairs_differing.

(* between two populations: differing pairs = k1 (n2 - k2) + (n1 - k1) k2 *)
Theorem C06_cross_differing : forall a b,
  cross_differing a b = count_true a * (length b - count_true b) + (length a - count_true a) * count_true b.
Proof. exact (@cross_differing_count). Qed.
Print Assumptions C06_cross_differing.

(* C(n,2) pairs *)
Theorem C06_number_of_pairs : forall n,
  (N.of_nat (n * (n - 1) / 2) = binomN n 2)%N.
Proof. exact (@pairs_total). Qed.
Print Assumptions C06_number_of_pairs.

(* sum = number of sites *)
Theorem C06_sum_is_number_of_sites : forall sh keys,
  positive_shape sh -> keys_ok sh keys -> spectrum_sum (hist sh keys) = qnat (length keys).
Proof. exact (@sum_eq). Qed.
Print Assumptions C06_sum_is_number_of_sites.

(* S = number of polymorphic sites *)
Theorem C06_S_is_polymorphic_sites : forall sh keys,
  positive_shape sh -> keys_ok sh keys -> 2 <= elements sh ->
  segregating_sites (hist sh keys) = qnat (length (filter (is_poly sh) keys)).
Proof. exact (@S_eq). Qed.
Print Assumptions C06_S_is_polymorphic_sites.

(* pi = sum over sites of differing pairs / number of pairs *)
Theorem C06_pi_is_mean_pairwise_difference : forall n keys,
  2 <= n -> keys_ok [S n] keys ->
  pi_unchecked (hist [S n] keys) =
  qsum (map (fun k => (qnat (nth 0 k 0 * (n - nth 0 k 0))%nat / qN (binomN n 2))%Qc) keys).
Proof. exact (@pi_eq). Qed.
Print Assumptions C06_pi_is_mean_pairwise_difference.

(* pi_xy = sum over sites of differing between-population pairs / (n1 n2) *)
Theorem C06_pixy_is_between_population_difference : forall n1 n2 keys,
  1 <= n1 -> 1 <= n2 -> keys_ok [S n1; S n2] keys ->
  pixy_unchecked (hist [S n1; S n2] keys) =
  (qsum (map (fun k => let k1 := nth 0 k 0%nat in let k2 := nth 1 k 0%nat in
                       qnat (k1 * (n2 - k2) + k2 * (n1 - k1))%nat) keys) / qnat (n1 * n2))%Qc.
Proof. exact (@pixy_eq). Qed.
Print Assumptions C06_pixy_is_between_population_difference.

(* f2 as printed (normalised) = site average of (p1 - p2)^2 *)
Theorem C06_f2_is_site_average : forall sh keys,
  length sh = 2 -> Forall (fun n => 2 <= n) sh -> keys_ok sh keys -> keys <> [] ->
  calculate SF2 (hist sh keys) =
  inl (SVal (qsum (map (fun k => ((freq k sh 0 - freq k sh 1) * (freq k sh 0 - freq k sh 1))%Qc) keys) / qnat (length keys))%Qc).
Proof. exact (@f2_eq). Qed.
Print Assumptions C06_f2_is_site_average.

(* f3 = site average of (p1 - p2)(p1 - p3) *)
Theorem C06_f3_is_site_average : forall sh keys,
  length sh = 3 -> Forall (fun n => 2 <= n) sh -> keys_ok sh keys -> keys <> [] ->
  calculate SF3 (hist sh keys) =
  inl (SVal (qsum (map (fun k => ((freq k sh 0 - freq k sh 1) * (freq k sh 0 - freq k sh 2))%Qc) keys) / qnat (length keys))%Qc).
Proof. exact (@f3_eq). Qed.
Print Assumptions C06_f3_is_site_average.

(* f4 = site average of (p1 - p2)(p3 - p4) *)
Theorem C06_f4_is_site_average : forall sh keys,
  length sh = 4 -> Forall (fun n => 2 <= n) sh -> keys_ok sh keys -> keys <> [] ->
  calculate SF4 (hist sh keys) =
  inl (SVal (qsum (map (fun k => ((freq k sh 0 - freq k sh 1) * (freq k sh 2 - freq k sh 3))%Qc) keys) / qnat (length keys))%Qc).
Proof. exact (@f4_eq). Qed.
Print Assumptions C06_f4_is_site_average.

(* Hudson's Fst = ratio of summed per-site numerators and denominators *)
Theorem C06_fst_is_ratio_of_sums : forall sh keys,
  length sh = 2 -> Forall (fun n => 3 <= n) sh -> keys_ok sh keys -> keys <> [] ->
  calculate SFst (hist sh keys) =
  inl (SVal (qsum (map (fst_num sh) keys) / qsum (map (fst_den sh) keys))%Qc).
Proof. exact (@fst_eq). Qed.
Print Assumptions C06_fst_is_ratio_of_sums.

(* R0, R1, KING = ratios of two-individual genotype-pair counts *)
Theorem C06_king_r0_r1_are_genotype_pair_ratios : forall keys,
  keys_ok [3; 3] keys ->
  calculate SR0 (hist [3; 3] keys) = inl (SVal ((npair keys 0 2 + npair keys 2 0) / npair keys 1 1)%Qc) /\
  calculate SR1 (hist [3; 3] keys) =
    inl (SVal (npair keys 1 1 / (npair keys 0 1 + npair keys 0 2 + npair keys 1 0 + npair keys 1 2 + npair keys 2 0 + npair keys 2 1))%Qc) /\
  calculate SKing (hist [3; 3] keys) =
    inl (SVal ((npair keys 1 1 - qnat 2 * (npair keys 0 2 + npair keys 2 0)) /
               (npair keys 0 1 + npair keys 1 0 + qnat 2 * npair keys 1 1 + npair keys 1 2 + npair keys 2 1))%Qc).
Proof. exact (@king_r0_r1_eq). Qed.
Print Assumptions C06_king_r0_r1_are_genotype_pair_ratios.

(* the spectrum produced by create IS the histogram of the complete sites' per-population ALT counts (so every statement above about `hist` is a statement about create's output) *)
Theorem C06_created_spectrum_is_histogram : forall cfg items,
  cfg_wf cfg -> r_pto cfg = None -> Forall (no_selected_ploidy cfg) items ->
  exists st, run_items cfg false (init_rstate cfg) items = inl st /\
             {| adata := scs st; ashape := r_shape cfg |} = hist (r_shape cfg) (complete_keys cfg items) /\
             keys_ok (r_shape cfg) (complete_keys cfg items).
Proof. exact (@create_is_hist). Qed.
Print Assumptions C06_created_spectrum_is_histogram.

(* a_n = sum_{i<n} 1/i, b_n = sum_{i<n} 1/i^2 *)
Theorem C06_harmonic_numbers : forall n,
  harmonic n = a_n n /\ p_harmonic n 2 = b_n n.
Proof. exact (@harmonic_is_a_n). Qed.
Print Assumptions C06_harmonic_numbers.

(* S = sum of the interior entries *)
Theorem C06_S_formula : forall x n,
  length (adata x) = S n -> 1 <= n -> segregating_sites x = S_of x n.
Proof. exact (@S_formula). Qed.
Print Assumptions C06_S_formula.

(* Watterson (1975): theta_W = S / a_n *)
Theorem C06_watterson : forall x n,
  length (adata x) = S n -> 2 <= n -> theta_w_unchecked x = (S_of x n / a_n n)%Qc.
Proof. exact (@theta_w_formula). Qed.
Print Assumptions C06_watterson.

(* Tajima (1983): pi = sum_i i (n - i) xi_i / C(n,2) *)
Theorem C06_tajima_pi : forall x n,
  length (adata x) = S n -> 2 <= n ->
  pi_unchecked x = (qsum (map (fun i => (qnat (i * (n - i)) * xi x i)%Qc) (seq 1 (n - 1))) / (qnat (n * (n - 1)) / qnat 2))%Qc.
Proof. exact (@pi_formula). Qed.
Print Assumptions C06_tajima_pi.

(* Tajima (1989): D = (pi - S/a1) / sqrt(e1 S + e2 S (S - 1)), numerator and radicand *)
Theorem C06_tajima_d : forall x n,
  length (adata x) = S n -> 2 <= n ->
  let s := S_of x n in let a1 := a_n n in let a2 := b_n n in
  let b1 := (qnat (n + 1) / qnat (3 * (n - 1)))%Qc in
  let b2 := (qnat (2 * (n * n + n + 3)) / qnat (9 * n * (n - 1)))%Qc in
  let c1 := (b1 - 1 / a1)%Qc in
  let c2 := (b2 - qnat (n + 2) / (a1 * qnat n) + a2 / (a1 * a1))%Qc in
  let e1 := (c1 / a1)%Qc in let e2 := (c2 / (a1 * a1 + a2))%Qc in
  d_tajima_parts x = ((pi_unchecked x - s / a1)%Qc, (e1 * s + e2 * s * (s - 1))%Qc).
Proof. exact (@tajima_d_formula). Qed.
Print Assumptions C06_tajima_d.

(* Fu and Li (1993): D = (S - a_n xi_1) / sqrt(u_D S + v_D S^2), numerator and radicand *)
Theorem C06_fu_li_d : forall x n,
  length (adata x) = S n -> 3 <= n ->
  let s := S_of x n in let a := a_n n in let b := b_n n in
  let c := (qnat 2 * (qnat n * a - qnat (2 * (n - 1))) / qnat ((n - 1) * (n - 2)))%Qc in
  let v := (1 + (a * a) / (b + a * a) * (c - qnat (n + 1) / qnat (n - 1)))%Qc in
  let u := (a - 1 - v)%Qc in
  d_fuli_parts x = ((s - a * xi x 1)%Qc, (u * s + v * (s * s))%Qc).
Proof. exact (@fu_li_d_formula). Qed.
Print Assumptions C06_fu_li_d.

