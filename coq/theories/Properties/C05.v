(* Property C05 - folding is mass-preserving, idempotent and symmetric under allele polarity.
   Only statements, `exact` of lemmas proved in Proofs/FoldP.v, Print Assumptions, examples. *)
From Sfs Require Import Index ArrayM Scalar Spectrum IndexP ArrayP FoldP.

Close Scope Qc_scope. Close Scope Q_scope. Open Scope nat_scope.

(* every in-bounds entry k (s = sum of k, T = sum of (n_j - 1)): 2s<T: x[k]+x[mirror k];
   2s=T: (x[k]+x[mirror k])/2; 2s>T: the fill value - for every shape of positive lengths *)
Theorem C05_fold_spec : forall (x : spectrum) (f : fillv) (k : list nat),
  wf x -> positive_shape (ashape x) -> inb (ashape x) k = true ->
  nth (flat (ashape x) k) (folded_cells x f) (Filled f) = fold_spec_cell x f k.
Proof. exact fold_spec. Qed.
Print Assumptions C05_fold_spec.

Theorem C05_fold_filled_iff : forall (x : spectrum) (k : list nat),
  wf x -> positive_shape (ashape x) -> inb (ashape x) k = true ->
  (nth (flat (ashape x) k) (fold_cells x) None = None <-> lsum (ashape x) - length (ashape x) < 2 * lsum k).
Proof. exact fold_none_iff. Qed.
Print Assumptions C05_fold_filled_iff.

Theorem C05_fold_mass : forall x : spectrum,
  wf x -> positive_shape (ashape x) -> spectrum_sum (fold0 x) = spectrum_sum x.
Proof. exact fold_mass. Qed.
Print Assumptions C05_fold_mass.

Theorem C05_fold_idempotent : forall x : spectrum,
  wf x -> positive_shape (ashape x) -> fold0 (fold0 x) = fold0 x.
Proof. exact fold_idem. Qed.
Print Assumptions C05_fold_idempotent.

(* mirrored array = reference and alternate alleles swapped *)
Theorem C05_mirror_is_polarity_swap : forall (x : spectrum) k,
  wf x -> positive_shape (ashape x) -> inb (ashape x) k = true ->
  q_getd (mirror_arr x) k = q_getd x (mirror (ashape x) k).
Proof. exact mirror_arr_get. Qed.
Print Assumptions C05_mirror_is_polarity_swap.

Theorem C05_fold_polarity : forall x : spectrum,
  wf x -> positive_shape (ashape x) -> fold_cells (mirror_arr x) = fold_cells x.
Proof. exact fold_polarity. Qed.
Print Assumptions C05_fold_polarity.

(* non-vacuity: a 2x3x2 spectrum with non-antisymmetric values (T = 4 is even: there is a diagonal) *)
Definition ex_x : spectrum :=
  {| adata := map (fun z => Q2Qc (inject_Z z)) [5; 0; 7; 1; 2; 9; 4; 4; 3; 8; 6; 1]%Z; ashape := [2; 3; 2] |}.
Example C05_example : wf ex_x /\ positive_shape (ashape ex_x) /\
  spectrum_sum (fold0 ex_x) = spectrum_sum ex_x /\
  map (fun c => match c with Some q => Some (Qnum (this q), Zpos (Qden (this q))) | None => None end) (fold_cells ex_x)
  = [Some (6, 1); Some (6, 1); Some (15, 1); Some (2, 1); Some (3, 1); None;
     Some (13, 1); Some (3, 1); Some (2, 1); None; None; None]%Z.
Proof. split; [reflexivity|]. split; [repeat constructor|]. split; vm_compute; reflexivity. Qed.

(* ---- beyond the rationals: spectra holding infinities and NaN (Model/Ext.v). Which cells take the fill value depends on
   the index alone; every other cell is x + mirror (0.5 x + 0.5 mirror on the diagonal) in IEEE arithmetic, whatever
   that evaluates to - a kept cell that is NaN stays NaN under every fill; on finite spectra this is the model above. *)
From Sfs Require Import Ext ExtP.
Theorem C05_ext_filled_iff : forall (x : espectrum) i, i < length (adata x) ->
  (nth i (e_fold_cells x) None = None <-> (lsum (ashape x) - length (ashape x)) / 2 < index_sum_from_flat (ashape x) i).
Proof. exact e_fold_cells_none_iff. Qed.
Print Assumptions C05_ext_filled_iff.

Theorem C05_ext_kept_independent_of_fill : forall (x : espectrum) f f' i v,
  nth i (e_fold_cells x) None = Some v ->
  nth i (adata (e_fold x f)) f = v /\ nth i (adata (e_fold x f')) f' = v.
Proof. exact e_fold_kept_independent_of_fill. Qed.
Print Assumptions C05_ext_kept_independent_of_fill.

Theorem C05_ext_below_diagonal : forall (x : espectrum) i,
  i < length (adata x) -> index_sum_from_flat (ashape x) i < (lsum (ashape x) - length (ashape x)) / 2 ->
  nth i (e_fold_cells x) None = Some (ev_add (nth i (adata x) ev_zero) (nth (length (adata x) - 1 - i) (adata x) ev_zero)).
Proof. exact e_fold_below_diagonal. Qed.
Print Assumptions C05_ext_below_diagonal.

Theorem C05_ext_on_finite : forall x : spectrum, e_fold_cells (embed x) = map (option_map Fin) (fold_cells x).
Proof. exact e_fold_cells_embed. Qed.
Print Assumptions C05_ext_on_finite.

Example C05_ext_example :
  let q (z : Z) := Fin (Q2Qc (z # 1)) in
  e_fold {| adata := [q 1%Z; NaN; q 3%Z; PInf]; ashape := [4] |} (q 0%Z) =
    {| adata := [PInf; NaN; q 0%Z; q 0%Z]; ashape := [4] |} /\
  e_fold {| adata := [PInf; q 2%Z; NInf]; ashape := [3] |} (q (-1)%Z) =
    {| adata := [NaN; q 2%Z; q (-1)%Z]; ashape := [3] |}.
Proof. cbv zeta. split; vm_compute; reflexivity. Qed.
