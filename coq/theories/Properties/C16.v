(* Property C16 - damaged spectrum files are rejected, never read as a different spectrum. *)
From Sfs Require Import Index Npy Text NpyP TextP NpySpellP.
Close Scope string_scope. Open Scope N_scope.

(* every strict prefix of a written npy file is rejected *)
Theorem C16_npy_prefix_rejected : forall sh vals n,
  file_ok sh vals -> (n < length (write_npy sh vals))%nat ->
  exists e, read_npy (firstn n (write_npy sh vals)) = inr e.
Proof. exact (@npy_prefix_rejected). Qed.
Print Assumptions C16_npy_prefix_rejected.

(* every written npy file with extra trailing bytes is rejected *)
Theorem C16_npy_extension_rejected : forall sh vals ext,
  file_ok sh vals -> ext <> [] ->
  exists e, read_npy (write_npy sh vals ++ ext) = inr e.
Proof. exact (@npy_extension_rejected). Qed.
Print Assumptions C16_npy_extension_rejected.

(* npy: accepted only when the number of values equals the product of the shape *)
Theorem C16_npy_count_must_match : forall sh vals inp,
  read_npy inp = inl (sh, vals) -> N.of_nat (length vals) = nelements sh.
Proof. exact (@read_npy_count). Qed.
Print Assumptions C16_npy_count_must_match.

(* text: likewise *)
Theorem C16_text_count_must_match : forall inp sh vals,
  read_text inp = inl (sh, vals) -> N.of_nat (length vals) = nelements sh.
Proof. exact (@read_text_count). Qed.
Print Assumptions C16_text_count_must_match.

(* auto-detected input: likewise *)
Theorem C16_any_format_count_must_match : forall inp sh vals,
  read_spectrum inp = inl (sh, vals) ->
  N.of_nat (length vals) = nelements sh /\ existsb (N.eqb 0) sh = false.
Proof. exact (@read_spectrum_count). Qed.
Print Assumptions C16_any_format_count_must_match.

(* inputs shorter than the magic have no format (error, not a panic) *)
Theorem C16_short_input_has_no_format : forall inp,
  (length inp < 6)%nat -> detect_format inp = None.
Proof. exact (@detect_short). Qed.
Print Assumptions C16_short_input_has_no_format.

