(* Property C16 - damaged spectrum files are rejected, never read as a different spectrum. *)
From Sfs Require Import Index Npy Text NpyP TextP NpySpellP TextLayoutP.
Close Scope string_scope. Open Scope N_scope.

(* every strict prefix of a written npy file is rejected *)
Theorem C16_npy_prefix_rejected : forall sh vals n,
  file_ok sh vals -> (n < length (write_npy sh vals))%nat ->
  exists e, read_npy (firstn n (write_npy sh vals)) = inr e.
Proof. exact (@npy_prefix_rejected). Qed.
Print Assumptions C16_npy_prefix_rejected.

(* every written npy file with extra trailing bytes is rejected *)
Theorem C16_npy_extension_rejected : forall sh vals ext,
  file_ok sh vals -> ext <> [] ->
  exists e, read_npy (write_npy sh vals ++ ext) = inr e.
Proof. exact (@npy_extension_rejected). Qed.
Print Assumptions C16_npy_extension_rejected.

(* npy: accepted only when the number of values equals the product of the shape *)
Theorem C16_npy_count_must_match : forall sh vals inp,
  read_npy inp = inl (sh, vals) -> N.of_nat (length vals) = nelements sh.
Proof. exact (@read_npy_count). Qed.
Print Assumptions C16_npy_count_must_match.

(* text: likewise *)
Theorem C16_text_count_must_match : forall inp sh vals,
  read_text inp = inl (sh, vals) -> N.of_nat (length vals) = nelements sh.
Proof. exact (@read_text_count). Qed.
Print Assumptions C16_text_count_must_match.

(* auto-detected input: likewise *)
Theorem C16_any_format_count_must_match : forall inp sh vals,
  read_spectrum inp = inl (sh, vals) ->
  N.of_nat (length vals) = nelements sh /\ existsb (N.eqb 0) sh = false.
Proof. exact (@read_spectrum_count). Qed.
Print Assumptions C16_any_format_count_must_match.

(* inputs shorter than the magic have no format (error, not a panic) *)
Theorem C16_short_input_has_no_format : forall inp,
  (length inp < 6)%nat -> detect_format inp = None.
Proof. exact (@detect_short). Qed.
Print Assumptions C16_short_input_has_no_format.

(* text: acceptance is decided by the number of tokens in the whole remainder of the file, on whichever lines they stand *)
Theorem C16_text_tokens_counted_wherever_they_stand : forall (line : bytes) (toks seps : list bytes) (lead tail : bytes) sh vals,
  Forall (fun c => (c =? 10) = false) line ->
  Forall word toks -> Forall ws_run seps -> all_ws lead -> all_ws tail ->
  read_text (line ++ 10 :: lead ++ layout toks seps tail) = inl (sh, vals) ->
  N.of_nat (length toks) = nelements sh /\ length vals = length toks.
Proof. exact (@read_text_token_count). Qed.
Print Assumptions C16_text_tokens_counted_wherever_they_stand.

(* ... in particular a complete values line followed by one more token on a later line is rejected *)
Theorem C16_text_surplus_line_rejected : forall (line : bytes) (toks : list bytes) (extra : bytes) sh,
  Forall (fun c => (c =? 10) = false) line -> Forall (fun c => c < 128) line ->
  Forall word toks -> Forall (Forall (fun c => c < 128)) toks -> word extra -> Forall (fun c => c < 128) extra ->
  read_text (line ++ 10 :: join [32] toks ++ [10]) = inl (sh, map (fun t => match parse_f64 t with Some v => v | None => 0 end) toks) ->
  exists e, read_text (line ++ 10 :: join [32] toks ++ [10] ++ extra ++ [10]) = inr e.
Proof. exact (@read_text_surplus_line_rejected). Qed.
Print Assumptions C16_text_surplus_line_rejected.

