(* Property C18 - results do not depend on how the byte stream is chunked; I/O errors surface (partial:
   noodles' use of the stream between fill_buf calls is exercised, not modelled). *)
From Sfs Require Import Index Npy Text Stream Frames NpyP StreamP DetectP FramesP.
Close Scope string_scope. Open Scope N_scope.

Close Scope string_scope. Open Scope N_scope.
(* std's read_exact over a BufRead returns the same bytes for every chunk schedule *)
Theorem C18_read_exact_schedule_free : forall r k,
  reader_ok r -> no_fail r -> (k <= length (rest r))%nat ->
  exists r', read_exact_s (S k) k r = inl (firstn k (rest r), r') /\
             rest r' = skipn k (rest r) /\ reader_ok r' /\ no_fail r'.
Proof. exact (@read_exact_sched_free). Qed.
Print Assumptions C18_read_exact_schedule_free.

Close Scope string_scope. Open Scope N_scope.
(* ... and an error when the stream ends early *)
Theorem C18_read_exact_short_is_error : forall r k,
  reader_ok r -> no_fail r -> (length (rest r) < k)%nat -> read_exact_s (S k) k r = inr IoEof.
Proof. exact (@read_exact_short). Qed.
Print Assumptions C18_read_exact_short_is_error.

Close Scope string_scope. Open Scope N_scope.
(* read_to_end (spectrum files are read whole) likewise *)
Theorem C18_read_to_end_schedule_free : forall r,
  reader_ok r -> no_fail r -> read_to_end_s (S (length (rest r))) r = inl (rest r).
Proof. exact (@read_to_end_sched_free). Qed.
Print Assumptions C18_read_to_end_schedule_free.

Close Scope string_scope. Open Scope N_scope.
(* the value loop (fill_buf().is_empty() + read_exact) over any schedule = over the whole buffer *)
Theorem C18_npy_values_schedule_free : forall en t r,
  reader_ok r -> no_fail r ->
  read_values_s (S (length (rest r))) en t r =
    match read_values (S (length (rest r))) en t (rest r) with
    | Some l => inl l
    | None => inr (SIo IoEof)
    end.
Proof. exact (@read_values_sched_free). Qed.
Print Assumptions C18_npy_values_schedule_free.

Close Scope string_scope. Open Scope N_scope.
(* the npy reader over any chunk schedule = the npy reader over the whole buffer *)
Theorem C18_npy_reader_schedule_free : forall data sch,
  match read_npy_s (mk_reader data sch None), read_npy data with
  | inl a, inl b => a = b
  | inr (SData e), inr e' => e = e'
  | inr (SIo IoEof), inr EShortRead => True
  | _, _ => False
  end.
Proof. exact (@read_npy_sched_free). Qed.
Print Assumptions C18_npy_reader_schedule_free.

Close Scope string_scope. Open Scope N_scope.
(* a source that fails before its end makes read_to_end fail *)
Theorem C18_read_failure_surfaces : forall data sch f,
  (f < length data)%nat ->
  read_to_end_s (S (length data)) (mk_reader data sch (Some f)) = inr IoFail.
Proof. exact (@read_to_end_fault). Qed.
Print Assumptions C18_read_failure_surfaces.

Close Scope string_scope. Open Scope N_scope.
(* ... and read_exact *)
Theorem C18_read_exact_failure_surfaces : forall data sch f k,
  (f < k)%nat -> (k <= length data)%nat ->
  read_exact_s (S k) k (mk_reader data sch (Some f)) = inr IoFail.
Proof. exact (@read_exact_fault). Qed.
Print Assumptions C18_read_exact_failure_surfaces.

Close Scope string_scope. Open Scope N_scope.
(* ... and the npy reader: never a result from partial data *)
Theorem C18_npy_read_failure_surfaces : forall sh vals sch f,
  file_ok sh vals -> (f < length (write_npy sh vals))%nat ->
  exists e, read_npy_s (mk_reader (write_npy sh vals) sch (Some f)) = inr e.
Proof. exact (@read_npy_fault). Qed.
Print Assumptions C18_npy_read_failure_surfaces.

Close Scope string_scope. Open Scope N_scope.
(* a writer that accepts a few bytes per call receives all bytes, in order *)
Theorem C18_write_all_completes_short_writes : forall buf w,
  wfail w = None ->
  exists w', write_all (S (length buf)) buf w = inl w' /\ accepted w' = accepted w ++ buf /\ wfail w' = None.
Proof. exact (@write_all_sched_free). Qed.
Print Assumptions C18_write_all_completes_short_writes.

Close Scope string_scope. Open Scope N_scope.
(* a sink that fails before the end makes write_all fail *)
Theorem C18_write_failure_surfaces : forall buf w f,
  wfail w = Some f -> (f < length buf)%nat ->
  write_all (S (length buf)) buf w = inr WFail.
Proof. exact (@write_all_fault). Qed.
Print Assumptions C18_write_failure_surfaces.

Close Scope string_scope. Open Scope N_scope.
(* the npy writer through any short-write schedule produces the same bytes *)
Theorem C18_npy_writer_schedule_free : forall sh vals sch,
  exists w', write_pieces (npy_pieces sh vals) (mk_writer sch None) = inl w' /\ accepted w' = write_npy sh vals.
Proof. exact (@write_npy_sched_free). Qed.
Print Assumptions C18_npy_writer_schedule_free.

Close Scope string_scope. Open Scope N_scope.
(* ... and fails when the sink fails at any offset *)
Theorem C18_npy_write_failure_surfaces : forall sh vals sch f,
  (f < length (write_npy sh vals))%nat ->
  write_pieces (npy_pieces sh vals) (mk_writer sch (Some f)) = inr WFail.
Proof. exact (@write_npy_fault). Qed.
Print Assumptions C18_npy_write_failure_surfaces.

Close Scope string_scope. Open Scope N_scope.
(* compression/format detection of call-set streams (as repaired) sees the same prefix for every chunk schedule, including a first chunk of one byte *)
Theorem C18_detection_schedule_free : forall (gunzip_prefix : bytes -> option bytes) data sch,
  detect_stream gunzip_prefix (mk_reader data sch None) =
  inl (detect_container gunzip_prefix (firstn detect_prefix_len data)).
Proof. exact (@detect_sched_free). Qed.
Print Assumptions C18_detection_schedule_free.

Close Scope string_scope. Open Scope N_scope.
(* refutation kept on record: detection from ONE fill_buf (the unrepaired code) depends on the first chunk *)
Theorem C18_first_chunk_detection_was_schedule_dependent : forall (gunzip_prefix : bytes -> option bytes) ,
  exists data sch, detect_stream_first_chunk gunzip_prefix (mk_reader data sch None) <> detect_stream_first_chunk gunzip_prefix (mk_reader data [] None).
Proof. exact (@detect_short_first_chunk_refuted). Qed.
Print Assumptions C18_first_chunk_detection_was_schedule_dependent.

Close Scope N_scope. Open Scope nat_scope.
(* the record framing of the (repaired) BCF reader: a stream of records is read back as those records *)
Theorem C18_bcf_records_read_back : forall rs,
  Forall frame_ok rs -> read_frames (frames_bytes rs) = Some rs.
Proof. exact (@read_frames_frames_bytes). Qed.
Print Assumptions C18_bcf_records_read_back.

Close Scope N_scope. Open Scope nat_scope.
(* ... and a stream that stops anywhere but between two records (the source failed or was cut short) is an error, never fewer records (F24) *)
Theorem C18_bcf_partial_stream_is_error : forall rs n,
  Forall frame_ok rs -> n <= length (frames_bytes rs) -> ~ In n (boundaries rs) ->
  read_frames (firstn n (frames_bytes rs)) = None.
Proof. exact (@read_frames_cut_inside). Qed.
Print Assumptions C18_bcf_partial_stream_is_error.

Close Scope N_scope. Open Scope nat_scope.
(* the positions between records are the lengths of the streams of the first k records *)
Theorem C18_bcf_record_boundaries : forall rs n,
  In n (boundaries rs) <-> exists k, k <= length rs /\ n = length (frames_bytes (firstn k rs)).
Proof. exact (@boundaries_spec). Qed.
Print Assumptions C18_bcf_record_boundaries.

