(* Property C12 - output depends only on call data, not container, transport, threads or run (partial: the
   decoding of VCF/BCF/BGZF by noodles, its worker threads and inflate are exercised, not modelled). What is proved:
   container detection sees the same 64 KiB prefix for every way the transport chunks the stream and follows from the
   magic numbers alone; the shape and population ids are functions of the sample list only (no hash-iteration order
   enters: the model of population_sizes uses point lookups only, as the code does); the modelled pipeline takes the
   decoded call set as its only input. *)
From Sfs Require Import Index ArrayM Scalar Spectrum Project Create Npy Text Container Stream IndexP ArrayP NpyP StreamP DetectP CreateP CreateSpecP ContainerP.
From Coq Require Import Permutation.

Close Scope string_scope. Open Scope N_scope.
(* container detection is independent of how the transport chunks the stream *)
Theorem C12_detection_transport_free : forall (gunzip_prefix : bytes -> option bytes) data sch,
  detect_stream gunzip_prefix (mk_reader data sch None) =
  inl (detect_container gunzip_prefix (firstn detect_prefix_len data)).
Proof. exact (@detect_sched_free). Qed.
Print Assumptions C12_detection_transport_free.

Close Scope string_scope. Open Scope N_scope.
(* a stream starting with the BCF magic is BCF, for every chunking *)
Theorem C12_detection_bcf : forall (gunzip_prefix : bytes -> option bytes) data sch,
  detect_stream gunzip_prefix (mk_reader (66 :: 67 :: 70 :: data) sch None) = inl CBcf.
Proof. exact (@detect_bcf). Qed.
Print Assumptions C12_detection_bcf.

Close Scope string_scope. Open Scope N_scope.
(* a stream starting with neither the gzip nor the BCF magic is VCF, for every chunking *)
Theorem C12_detection_plain : forall (gunzip_prefix : bytes -> option bytes) data sch,
  (match data with 31 :: 139 :: _ => False | 66 :: 67 :: 70 :: _ => False | _ => True end) ->
  detect_stream gunzip_prefix (mk_reader data sch None) = inl CVcf.
Proof. exact (@detect_plain). Qed.
Print Assumptions C12_detection_plain.

Close Scope string_scope. Open Scope N_scope.
(* reading to the end is chunking-independent *)
Theorem C12_whole_stream_is_read_once : forall r,
  reader_ok r -> no_fail r -> read_to_end_s (S (length (rest r))) r = inl (rest r).
Proof. exact (@read_to_end_sched_free). Qed.
Print Assumptions C12_whole_stream_is_read_once.

Close Scope N_scope. Open Scope nat_scope.
(* the output shape is a function of the sample list (labels in first-appearance order, counts): nothing else, in particular no hash order *)
Theorem C12_shape_from_list_only : forall l,
  NoDup (map fst l) -> map_shape (build_map l) = Some (map (fun p => 1 + 2 * label_count l p) (labels l)).
Proof. exact (@map_shape_spec). Qed.
Print Assumptions C12_shape_from_list_only.

Close Scope N_scope. Open Scope nat_scope.
(* population ids likewise *)
Theorem C12_ids_from_list_only : forall l s p,
  NoDup (map fst l) -> In (s, p) l -> smap_get (build_map l) s = index_of pop_eqb p (labels l).
Proof. exact (@build_map_ids). Qed.
Print Assumptions C12_ids_from_list_only.

Close Scope N_scope. Open Scope nat_scope.
(* the order of sample columns in the container does not matter *)
Theorem C12_column_order_free : forall m cols cols' pto st gs gs',
  length cols = length gs -> length cols' = length gs' -> NoDup cols ->
  Permutation (combine cols gs) (combine cols' gs') ->
  snd (read_site m cols pto st gs) = snd (read_site m cols' pto st gs').
Proof. exact (@read_site_column_perm). Qed.
Print Assumptions C12_column_order_free.

Close Scope string_scope. Open Scope N_scope.
(* a genotype is classified alike whether it arrives as VCF text or as the int8 vector htslib writes into a BCF record *)
Theorem C12_genotype_container_free : forall (g : agt) (w : nat),
  g <> [] -> int8_ok g = true -> (length g <= w)%nat ->
  classify_field (vcf_field_gt (render_gt g)) = Some (classify (Some (map fst g))) /\
  classify_field (bcf_field_gt (hts_encode g w)) = Some (classify (Some (map fst g))).
Proof. exact (@gt_container_independent). Qed.
Print Assumptions C12_genotype_container_free.

Close Scope string_scope. Open Scope N_scope.
(* ... for a whole record, every sample padded to the widest genotype of the record (mixed ploidy, missing fields) *)
Theorem C12_record_container_free : forall (gs : list agt),
  Forall (fun g => g <> [] /\ int8_ok g = true) gs ->
  map (fun g => classify_field (vcf_field_gt (render_gt g))) gs =
  map (fun g => classify_field (bcf_field_gt (hts_encode g (max_ploidy gs)))) gs.
Proof. exact (@record_container_independent). Qed.
Print Assumptions C12_record_container_free.

Close Scope string_scope. Open Scope N_scope.
(* the GT text noodles-bcf rebuilds from an htslib vector is the VCF spelling of the genotype *)
Theorem C12_bcf_text_is_vcf_text : forall (g : agt) (w : nat),
  g <> [] -> int8_ok g = true -> (length g <= w)%nat -> bcf_gt_string (hts_encode g w) = render_gt g.
Proof. exact (@bcf_gt_string_hts). Qed.
Print Assumptions C12_bcf_text_is_vcf_text.

