(* Extraction of the executable model for the correspondence check.
   Directives in use: those of ExtrOcamlBasic, ExtrOcamlNatBigInt, ExtrOcamlZBigInt (standard
   library files; listed in DESIGN.md, trusted base) and nothing else.
   No theorem depends on the extracted code. *)
From Coq Require Extraction.
From Coq Require Import ExtrOcamlBasic ExtrOcamlNatBigInt ExtrOcamlZBigInt.
From Coq Require Import ZArith.
From Sfs Require Import Index Word ArrayM Scalar Spectrum Project Create SampleParse Stat Npy Text Container Stream Ext Frames.

Extraction Blacklist List String Int Big_int_Z.

(* nat, positive, N and Z are all realised by zarith integers (ExtrOcamlNatBigInt / ExtrOcamlZBigInt), so the
   conversions between them are the identity (or a clamp at zero); without these six directives they are extracted
   as unary recursions whose depth is the value (stack overflow beyond ~10^5). These are the only Extract
   directives of this development besides the three standard-library files above. *)
Extract Constant Z.of_nat => "(fun n -> n)".
Extract Constant N.of_nat => "(fun n -> n)".
Extract Constant N.to_nat => "(fun n -> n)".
Extract Constant Z.to_nat => "(fun z -> Big_int_Z.max_big_int Big_int_Z.zero_big_int z)".
Extract Constant Z.of_N => "(fun n -> n)".
Extract Constant Z.to_N => "(fun z -> Big_int_Z.max_big_int Big_int_Z.zero_big_int z)".

(* array API instantiated at Z elements (the correspondence uses integer-valued data) *)
Definition z_sum_axis := @sum_axis Z 0%Z Z.add.

(* Qc <-> (numerator, denominator) for the driver *)
Definition qc_of (n : Z) (d : positive) : Qc := Q2Qc (n # d).
Definition qc_num (q : Qc) : Z := Qnum (this q).
Definition qc_den (q : Qc) : positive := Qden (this q).

Extraction "model.ml"
  Index.elements Index.strides Index.flat Index.unflat Index.index_from_flat
  Index.index_sum_from_flat Index.indices Index.inb Index.mirror
  Word.array_new_w Word.strides_w Word.flat_index_w
  ArrayM.arr_new ArrayM.get ArrayM.set ArrayM.get_axis ArrayM.viter_new ArrayM.vnext ArrayM.vlen
  ArrayM.view_items ArrayM.view_to_array ArrayM.axis_next ArrayM.axis_len ArrayM.ind_next ArrayM.ind_len
  z_sum_axis qc_of qc_num qc_den
  Spectrum.marginalize Spectrum.keep_to_remove Spectrum.normalize Spectrum.mask_monomorphic
  Ext.e_fold Ext.e_marginalize Frames.count_frames
  Spectrum.folded_cells Spectrum.fold0 Spectrum.mirror_arr Spectrum.spectrum_sum Spectrum.marg_spec
  Project.binomN Project.hyp Project.project Project.project_spec
  Create.classify Create.classify_v0 Container.vcf_field_gt Container.vcf_sample_gt Container.bcf_field_gt Container.render_gt Container.hts_encode Container.parse_gt Create.build_map Create.map_shape Create.build_reader Create.read_site
  SampleParse.parse_samples_file SampleParse.parse_samples_inline
  Create.init_sstate Create.create_run Create.rec_counts Create.rec_complete
  Stat.calculate Stat.view_run
  Npy.write_npy Npy.write_npy_checked Npy.read_npy Npy.parse_dict Npy.decode_value Npy.dec
  Text.print_fixed Text.parse_f64 Text.write_text Text.read_text Text.detect_format Text.read_spectrum
  Stream.mk_reader Stream.read_npy_s Stream.read_to_end_s Stream.mk_writer Stream.write_pieces Stream.npy_pieces Stream.detect_stream.
