(* driver.ml: runs the extracted Coq model on case lines (stdin) and prints one observation per
   line, in the same grammar as harness/src (sfs-probe). nat, N and Z are all Z.t. *)
module ZA = Z   (* zarith; the extracted model also defines a module Z *)
module S = Stdlib.String
open Model

let zs = ZA.to_string
let parse_list s = if s = "-" then [] else List.map ZA.of_string (S.split_on_char ',' s)
let fmt_list l = if l = [] then "-" else S.concat "," (List.map zs l)
let split_ws s = List.filter (fun t -> t <> "") (S.split_on_char ' ' s)

let rec seqz a n = if ZA.leq n ZA.zero then [] else a :: seqz (ZA.succ a) (ZA.pred n)
let ramp sh = { adata = seqz ZA.zero (elements sh); ashape = sh }

let buf = Buffer.create 1024
let add s = Buffer.add_string buf s

let run_array toks =
  match toks with
  | ["get"; sh; idx] ->
    (match get (ramp (parse_list sh)) (parse_list idx) with
     | Some v -> add ("Some " ^ zs v) | None -> add "None")
  (* the mutable path: the model's [set] (get_mut + write); reported as the element addressed and the flat positions of
     the data that changed *)
  | ["getmut"; sh; idx] ->
    let a = ramp (parse_list sh) in
    let i = parse_list idx in
    (match get a i, set a i (ZA.of_int (-1)) with
     | Some v, Some y ->
       let changed = List.filteri (fun _ (p, q) -> not (ZA.equal p q)) (List.combine a.adata y.adata)
                     |> List.map (fun (p, _) -> zs p) in   (* the ramp's value at a position is the position *)
       add ("Some " ^ zs v ^ " W" ^ S.concat "+" changed)
     | None, None -> add "None"
     | _ -> add "MODEL-INCONSISTENT get/set")
  (* the 64-bit layer (Model/Word.v): Array::new's checked element count, saturating strides, flat index with overflow *)
  | "wnew" :: len :: sh :: rest ->
    let sh = parse_list sh in
    if not (array_new_w (ZA.of_string len) sh) then add "Err"
    else begin
      add "Ok";
      (match rest with
       | [idxs] ->
         List.iter (fun t ->
           match flat_index_w (strides_w sh) sh (parse_list t) with
           | WNone -> add " N" | WSome f -> add (" S" ^ zs f) | WOverflow -> add " OVERFLOW")
           (S.split_on_char ';' idxs)
       | _ -> ())
    end
  | ["getaxis"; sh; a; i] ->
    (match get_axis (ramp (parse_list sh)) (ZA.of_string a) (ZA.of_string i) with
     | Some v -> add ("Some dims=" ^ string_of_int (List.length v.vshape)) | None -> add "None")
  | ["view"; sh; a; i; k] ->
    (match get_axis (ramp (parse_list sh)) (ZA.of_string a) (ZA.of_string i) with
     | None -> add "None"
     | Some v ->
       let s = ref (viter_new v) in
       add ("L" ^ zs (vlen v !s));
       for _ = 1 to int_of_string k do
         let (s', o) = vnext v !s in
         s := s';
         (match o with Some x -> add (" S" ^ zs x) | None -> add " N");
         add (" L" ^ zs (vlen v !s))
       done)
  | ["axisiter"; sh; a; k] ->
    let x = ramp (parse_list sh) and a = ZA.of_string a in
    let i = ref ZA.zero in
    add ("L" ^ zs (axis_len x a !i));
    for _ = 1 to int_of_string k do
      let (i', o) = axis_next x a !i in
      i := i';
      (match o with
       | Some v -> let items = view_items v in
         add (" V" ^ (if items = [] then "-" else S.concat ";" (List.map zs items)))
       | None -> add " N");
      add (" L" ^ zs (axis_len x a !i))
    done
  | ["indices"; sh; k] ->
    let sh = parse_list sh in
    let total = elements sh in
    let i = ref ZA.zero in
    add ("L" ^ zs (ind_len !i total));
    for _ = 1 to int_of_string k do
      let (i', o) = ind_next sh !i total in
      i := i';
      (match o with Some idx -> add (" I" ^ fmt_list idx) | None -> add " N");
      add (" L" ^ zs (ind_len !i total))
    done
  (* call histories mixing next ("x") and nth k: nth k is k discarded calls of next and then one more (what the default
     implementation of Iterator::nth does; the model has no nth of its own) *)
  | ["indiceshist"; sh; ops] ->
    let sh = parse_list sh in
    let total = elements sh in
    let i = ref ZA.zero in
    add ("L" ^ zs (ind_len !i total));
    List.iter (fun op ->
        let k = if op = "x" then 0 else int_of_string op in
        let last = ref None in
        let stop = ref false in
        for j = 0 to k do
          if not !stop then begin
            let (i', o) = ind_next sh !i total in
            i := i';
            (match o with None -> (last := None; stop := true) | Some _ -> if j = k then last := o)
          end
        done;
        (match !last with Some idx -> add (" I" ^ fmt_list idx) | None -> add " N");
        add (" L" ^ zs (ind_len !i total))) (S.split_on_char ',' ops)
  | ["viewhist"; sh; a; i; ops] ->
    (match get_axis (ramp (parse_list sh)) (ZA.of_string a) (ZA.of_string i) with
     | None -> add "None"
     | Some v ->
       let s = ref (viter_new v) in
       add ("L" ^ zs (vlen v !s));
       List.iter (fun op ->
         if op = "l" || op = "n" then begin
           (* Iterator::last / count on a copy of the state: the items still to come *)
           let rec rest st acc = (match vnext v st with (st', Some x) -> rest st' (x :: acc) | (_, None) -> acc) in
           let items = rest !s [] in
           if op = "l" then (match items with x :: _ -> add (" T" ^ zs x) | [] -> add " TN")
           else add (" C" ^ string_of_int (List.length items))
         end else begin
           let k = if op = "x" then 0 else int_of_string op in
           let last = ref None in
           let stop = ref false in
           for j = 0 to k do
             if not !stop then begin
               let (s', o) = vnext v !s in
               s := s';
               (match o with None -> (last := None; stop := true) | Some _ -> if j = k then last := o)
             end
           done;
           (match !last with Some x -> add (" S" ^ zs x) | None -> add " N");
           add (" L" ^ zs (vlen v !s)) end)
         (* "c": the history continues on a clone of the iterator - in the model a state is a value, its copy is itself *)
         (List.filter (fun op -> op <> "c") (S.split_on_char ',' ops)))
  (* count / last / for_each on the axis iterator after k calls of next: the views still to come *)
  | ["axisfold"; sh; a; k; what] ->
    let x = ramp (parse_list sh) and a = ZA.of_string a in
    let i = ref ZA.zero in
    for _ = 1 to int_of_string k do
      let (i', _) = axis_next x a !i in i := i'
    done;
    let rec rest st acc = (match axis_next x a st with (st', Some v) -> rest st' (v :: acc) | (_, None) -> List.rev acc) in
    let views = rest !i [] in
    let items v = let l = view_items v in if l = [] then "-" else S.concat ";" (List.map zs l) in
    (match what with
     | "count" -> add ("C" ^ string_of_int (List.length views))
     | "last" -> (match List.rev views with v :: _ -> add ("V" ^ items v) | [] -> add "N")
     | _ -> add ("F" ^ (if views = [] then "none" else S.concat "|" (List.map items views))))
  (* View::to_array: the model's [view_to_array], then [get] at every index of the copy and the copy's own views *)
  | ["toarray"; sh; a; i] ->
    (match get_axis (ramp (parse_list sh)) (ZA.of_string a) (ZA.of_string i) with
     | None -> add "None"
     | Some v ->
       let c = view_to_array v in
       add ("S" ^ fmt_list c.ashape ^ " D" ^ S.concat ";" (List.map zs c.adata));
       add (" G" ^ S.concat ";" (List.map (fun idx -> match get c idx with Some x -> zs x | None -> "N") (indices c.ashape)));
       List.iteri (fun b len ->
           if ZA.equal len ZA.zero then add " A0" else
           match get_axis c (ZA.of_int b) (ZA.pred len) with
           | Some w -> let items = view_items w in add (" A" ^ (if items = [] then "-" else S.concat ";" (List.map zs items)))
           | None -> add " AN") c.ashape)
  | ["sum"; sh; a; data] ->
    let x = { adata = parse_list data; ashape = parse_list sh } in
    let s = z_sum_axis x (ZA.of_string a) in
    add (fmt_list s.ashape ^ " " ^ fmt_list s.adata)
  | _ -> add "BAD-CASE"


(* ---------------------------------------------------------------- spectrum-level ops *)
let parse_q tok : qc =
  match S.split_on_char '/' tok with
  | [n] -> qc_of (ZA.of_string n) ZA.one
  | [n; d] -> qc_of (ZA.of_string n) (ZA.of_string d)
  | _ -> failwith "bad rational"
let parse_qs s = if s = "-" then [] else List.map parse_q (S.split_on_char ',' s)
let fmt_q (q : qc) =
  let n = qc_num q and d = qc_den q in
  if ZA.equal d ZA.one then zs n else zs n ^ "/" ^ zs d
let fmt_qs l = if l = [] then "-" else S.concat "," (List.map fmt_q l)
let mk_spec sh data : spectrum = { adata = parse_qs data; ashape = parse_list sh }
let fmt_spec (y : spectrum) = fmt_list y.ashape ^ " " ^ fmt_qs y.adata

let fill_of = function
  | "nan" -> FillNan | "zero" -> FillZero | "minus-one" -> FillMinusOne | "inf" -> FillInf
  | _ -> failwith "bad fill"
let fmt_cell = function
  | Val q -> fmt_q q
  | Filled FillNan -> "nan" | Filled FillZero -> "0" | Filled FillMinusOne -> "-1" | Filled FillInf -> "inf"

let fmt_perr = function
  | PEmpty -> "ERR empty"
  | PInvalidProjection (d, f, t) -> "ERR invalid " ^ zs d ^ " " ^ zs f ^ " " ^ zs t
  | PUnequalDimensions (f, t) -> "ERR unequal " ^ zs f ^ " " ^ zs t
  | PZero -> "ERR zero"

(* spectra holding infinities / NaN: the extended-value model (Model/Ext.v) *)
let nonfinite data = List.exists (fun t -> t = "inf" || t = "-inf" || t = "nan") (S.split_on_char ',' data)
let parse_ev tok = match tok with "inf" -> PInf | "-inf" -> NInf | "nan" -> NaN | _ -> Fin (parse_q tok)
let fmt_ev = function Fin q -> fmt_q q | PInf -> "inf" | NInf -> "-inf" | NaN -> "nan"
let mk_espec sh data : espectrum = { adata = List.map parse_ev (S.split_on_char ',' data); ashape = parse_list sh }
let fmt_espec (y : espectrum) = fmt_list y.ashape ^ " " ^ (if y.adata = [] then "-" else S.concat "," (List.map fmt_ev y.adata))
let ev_fill = function
  | "nan" -> NaN | "zero" -> Fin (parse_q "0") | "minus-one" -> Fin (parse_q "-1") | "inf" -> PInf
  | _ -> failwith "bad fill"

let run_spectrum toks =
  match toks with
  | ["fold"; sh; data; fill] when nonfinite data -> add (fmt_espec (e_fold (mk_espec sh data) (ev_fill fill)))
  | ["marg"; sh; data; axes] when nonfinite data ->
    (match e_marginalize (mk_espec sh data) (parse_list axes) with
     | Inl y -> add ("OK " ^ fmt_espec y)
     | Inr (DuplicateAxis a) -> add ("ERR dup " ^ zs a)
     | Inr (AxisOutOfBounds (a, d)) -> add ("ERR oob " ^ zs a ^ " " ^ zs d)
     | Inr (TooManyAxes (n, d)) -> add ("ERR many " ^ zs n ^ " " ^ zs d))
  | ["fold"; sh; data; fill] ->
    let x = mk_spec sh data in
    let cells = folded_cells x (fill_of fill) in
    add (fmt_list x.ashape ^ " " ^ (if cells = [] then "-" else S.concat "," (List.map fmt_cell cells)))
  | ["marg"; sh; data; axes] ->
    (match marginalize (mk_spec sh data) (parse_list axes) with
     | Inl y -> add ("OK " ^ fmt_spec y)
     | Inr (DuplicateAxis a) -> add ("ERR dup " ^ zs a)
     | Inr (AxisOutOfBounds (a, d)) -> add ("ERR oob " ^ zs a ^ " " ^ zs d)
     | Inr (TooManyAxes (n, d)) -> add ("ERR many " ^ zs n ^ " " ^ zs d))
  | ["keep"; d; keep] -> add (fmt_list (keep_to_remove (ZA.of_string d) (parse_list keep)))
  | ["project"; sh; data; tosh] ->
    (match project (mk_spec sh data) (parse_list tosh) with
     | Inl y -> add ("OK " ^ fmt_spec y)
     | Inr e -> add (fmt_perr e))
  | ["pmf"; a; b; c; d] -> add (fmt_q (hyp (ZA.of_string a) (ZA.of_string b) (ZA.of_string c) (ZA.of_string d)))
  | ["binom"; n; k] -> add (zs (binomN (ZA.of_string n) (ZA.of_string k)))
  | _ -> add "BAD-CASE"

(* ---------------------------------------------------------------- bytes-level ops (npy, text) *)
let hex_of_bytes (bs : ZA.t list) =
  if bs = [] then "-" else S.concat "" (List.map (fun b -> Printf.sprintf "%02x" (ZA.to_int b)) bs)
let bytes_of_hex s =
  if s = "-" then [] else
  List.init (S.length s / 2) (fun i -> ZA.of_int (int_of_string ("0x" ^ S.sub s (2 * i) 2)))
let parse_bits tok = (* b<16 hex digits> *)
  ZA.of_string ("0x" ^ S.sub tok 1 (S.length tok - 1))
let parse_bits_list s = if s = "-" then [] else List.map parse_bits (S.split_on_char ',' s)
let fmt_bits w = Printf.sprintf "b%s" (ZA.format "%016x" w)
let fmt_bits_list l = if l = [] then "-" else S.concat "," (List.map fmt_bits l)

let run_bytes toks =
  match toks with
  | ["npyw"; sh; bits] ->
    (match write_npy_checked (parse_list sh) (parse_bits_list bits) with
     | Some b -> add (hex_of_bytes b) | None -> add "ERR")
  | ["npyr"; hex] ->
    (match read_npy (bytes_of_hex hex) with
     | Inl (sh, vals) -> add ("OK " ^ fmt_list sh ^ " " ^ fmt_bits_list vals)
     | Inr _ -> add "ERR")
  | ["textw"; sh; p; bits] -> add (hex_of_bytes (write_text (parse_list sh) (parse_bits_list bits) (ZA.of_string p)))
  | ["read"; hex] ->
    (match read_spectrum (bytes_of_hex hex) with
     | Inl (sh, vals) -> add ("OK " ^ fmt_list sh ^ " " ^ fmt_bits_list vals)
     | Inr _ -> add "ERR")
  | ["fmt"; bits; p] -> add ("S" ^ hex_of_bytes (print_fixed (parse_bits bits) (ZA.of_string p)))
  | ["parse"; hex] ->
    (match parse_f64 (bytes_of_hex hex) with Some w -> add (fmt_bits w) | None -> add "ERR")
  | ["detect"; hex] ->
    (match detect_format (bytes_of_hex hex) with Some FNpy -> add "npy" | Some FText -> add "text" | None -> add "none")
  | _ -> add "BAD-CASE"

(* ---------------------------------------------------------------- create path *)
let name_of_string s : name = List.init (S.length s) (fun i -> ZA.of_int (Char.code s.[i]))
let string_of_name (n : name) = S.init (List.length n) (fun i -> Char.chr (ZA.to_int (List.nth n i)))
let split_list s = if s = "-" then [] else S.split_on_char ',' s

(* GT text -> decoded field: the model's own reader of a VCF sample's GT value (Container.vcf_field_gt) *)
let gt_of_string s : vcf_gt =
  match vcf_field_gt (name_of_string s) with
  | Some g -> g
  | None -> failwith ("GT syntax: " ^ s)

let fmt_gres = function
  | GCalled g -> "called " ^ zs g | GMissing -> "missing" | GMultiallelic -> "multiallelic" | GPloidyErr -> "ploidy"

let parse_samples = function
  | "ALL" -> SamplesAll
  | "EMPTY" -> SamplesList []
  | l -> SamplesList (List.map (fun e ->
      match S.index_opt e ':' with
      | Some i -> let n = S.sub e 0 i and p = S.sub e (i + 1) (S.length e - i - 1) in
        (name_of_string n, if p = "-" then None else Some (name_of_string p))
      | None -> failwith "name:pop") (S.split_on_char ',' l))
let parse_project = function
  | "-" -> None
  | p -> let k = S.sub p 0 1 and v = parse_list (S.sub p 2 (S.length p - 2)) in
    Some (if k = "i" then ProjIndividuals v else ProjShape v)
let parse_records s : vcf_gt list list =
  if s = "-" then [] else List.map (fun r -> List.map gt_of_string (S.split_on_char ',' r)) (S.split_on_char ';' s)

let fmt_build_err = function
  | EEmptySamplesMap -> "ERR:empty"
  | EUnknownSample n -> "ERR:unknown:" ^ string_of_name n
  | EProjection e -> "ERR:proj:" ^ S.concat "_" (S.split_on_char ' ' (fmt_perr e))
  | EInconsistentSamples -> "ERR:io"

let run_create toks =
  match toks with
  | ["classify"; gt] -> add (fmt_gres (classify (gt_of_string gt)))
  (* genosm vcf|bcf FIELDS;FIELDS;... : FIELDS = comma separated hex of each sample's GT value (text / int8 vector) *)
  | ["genosm"; kind; recs] ->
    add "OK";
    (try
       if recs <> "-" then
         List.iter (fun r ->
             let fields = if r = "" then [] else S.split_on_char ',' r in
             let cls = List.map (fun h ->
                 let b = bytes_of_hex h in
                 match (if kind = "vcf" then vcf_field_gt b else bcf_field_gt b) with
                 | None -> add " E"; raise Exit
                 | Some g -> (match classify g with
                     | GCalled g -> "called" ^ zs g | GMissing -> "missing" | GMultiallelic -> "multiallelic" | GPloidyErr -> "ploidy")) fields in
             add (" " ^ (if cls = [] then "-" else S.concat "," cls))) (S.split_on_char ';' recs);
       add " D"
     with Exit -> ())
  (* genosv RECORDS : RECORD = FORMATHEX:SAMPLEHEX,SAMPLEHEX,... ; whole VCF sample texts against the record's FORMAT keys *)
  | ["genosv"; recs] ->
    add "OK";
    (try
       List.iter (fun r ->
           match S.split_on_char ':' r with
           | [fmt; samples] ->
             let keys = List.map (fun k -> List.init (S.length k) (fun i -> ZA.of_int (Char.code k.[i])))
                 (S.split_on_char ':' (S.init (S.length fmt / 2) (fun i -> Char.chr (int_of_string ("0x" ^ S.sub fmt (2 * i) 2))))) in
             let cls = List.map (fun h ->
                 match vcf_sample_gt keys (bytes_of_hex h) with
                 | None -> add " E"; raise Exit
                 | Some g -> (match classify g with
                     | GCalled g -> "called" ^ zs g | GMissing -> "missing" | GMultiallelic -> "multiallelic" | GPloidyErr -> "ploidy"))
                 (S.split_on_char ',' samples) in
             add (" " ^ S.concat "," cls)
           | _ -> failwith "genosv record") (S.split_on_char ';' recs);
       add " D"
     with Exit -> ())
  | ["smapfile"; hex] ->
    let m = build_map (parse_samples_file (bytes_of_hex hex)) in
    add ("OK " ^ (if m = [] then "-" else S.concat "," (List.map (fun (n, id) -> hex_of_bytes n ^ ":" ^ zs id) m)))
  | ["sites"; cols; samples; proj; recs] ->
    let cols = List.map name_of_string (split_list cols) in
    (match build_reader cols (parse_samples samples) (parse_project proj) with
     | Inr e -> add (fmt_build_err e)
     | Inl cfg ->
       add ("SHAPE=" ^ fmt_list cfg.r_shape);
       let st = ref (init_sstate cfg) in
       let zero = List.init (ZA.to_int (elements cfg.r_shape)) (fun _ -> qc_of ZA.zero ZA.one) in
       (try
          List.iter (fun gts ->
              let (st', res) = read_site cfg.r_map cfg.r_cols cfg.r_pto !st (List.map classify gts) in
              st := st';
              match res with
              | SErrPloidy -> add " E"; raise Exit
              | SRead (Standard c) -> add (" S" ^ fmt_list c)
              | SRead (Projected vs) -> add (" P" ^ fmt_qs (zip_madd zero vs (qc_of ZA.one ZA.one)))
              | SRead Insufficient -> add " I") (parse_records recs);
          add " D"
        with Exit -> ()))
  (* create STRICT COLS SAMPLES PROJ RECS : the whole run loop; records as for `sites`, "!" = unreadable record *)
  | ["create"; strict; cols; samples; proj; recs] ->
    let cols = List.map name_of_string (split_list cols) in
    (match build_reader cols (parse_samples samples) (parse_project proj) with
     | Inr e -> add (fmt_build_err e)
     | Inl cfg ->
       let items = if recs = "-" then [] else
           List.mapi (fun i r ->
               if r = "!" then IIoErr
               else IRec { rec_contig = name_of_string "chr1"; rec_pos = ZA.of_int (i + 1);
                           rec_gts = List.map gt_of_string (S.split_on_char ',' r) })
             (S.split_on_char ';' recs) in
       let o = create_run cfg (strict = "1") items in
       (match o.out_spectrum with
        | Some (sh, data) -> add ("OK " ^ fmt_list sh ^ " " ^ fmt_qs data)
        | None -> add "FAIL");
       (match o.out_summary with Some (a, b) -> add (" skipped=" ^ zs a ^ "/" ^ zs b) | None -> add " skipped=none");
       (match o.out_error with
        | None -> ()
        | Some (RErrGenotype (c, p)) -> add (" err=genotype@" ^ string_of_name c ^ ":" ^ zs p)
        | Some (RErrStrict (c, p)) -> add (" err=strict@" ^ string_of_name c ^ ":" ^ zs p)
        | Some RErrRead -> add " err=read"))
  | _ -> add "BAD-CASE"

(* ---------------------------------------------------------------- statistics and the view pipeline *)
let stat_of_string = function
  | "d-fu-li" -> SDFuLi | "d-tajima" -> SDTajima | "f2" -> SF2 | "f3" -> SF3 | "f4" -> SF4 | "fst" -> SFst
  | "king" -> SKing | "pi" -> SPi | "pi-xy" -> SPiXY | "r0" -> SR0 | "r1" -> SR1 | "s" -> SS | "sum" -> SSum
  | "theta" -> STheta | _ -> failwith "bad statistic"

let run_stat toks =
  match toks with
  | ["stat"; name; sh; data] ->
    (match calculate (stat_of_string name) (mk_spec sh data) with
     | Inl (SVal q) -> add ("V " ^ fmt_q q)
     | Inl (SRatioSqrt (n, d)) -> add ("D " ^ fmt_q n ^ " " ^ fmt_q d)
     | Inr _ -> add "ERR")
  (* viewrun MARG PROJ MASK NORM SHAPE DATA ; MARG = - | r:<axes> | k:<axes> ; PROJ = - | <shape> *)
  | ["viewrun"; marg; proj; mask; norm; sh; data] ->
    let m = if marg = "-" then None
      else let l = parse_list (S.sub marg 2 (S.length marg - 2)) in
        Some (if marg.[0] = 'r' then MRemove l else MKeep l) in
    let o = { v_marg = m; v_project = (if proj = "-" then None else Some (parse_list proj));
              v_mask = (mask = "1"); v_normalize = (norm = "1") } in
    (match view_run o (mk_spec sh data) with
     | Inl y -> add ("OK " ^ fmt_spec y)
     | Inr (VMarg _) -> add "ERR marg"
     | Inr (VProj _) -> add "ERR proj")
  | _ -> add "BAD-CASE"

(* ---------------------------------------------------------------- streams *)
(* "N:kind": the kind of an injected failure is no part of the model (any failure is an error) *)
let parse_opt s = if s = "-" then None else Some (ZA.of_string (List.hd (S.split_on_char ':' s)))
let run_stream toks =
  match toks with
  | ["cnpy"; hex; sched; fail] ->
    (match read_npy_s (mk_reader (bytes_of_hex hex) (parse_list sched) (parse_opt fail)) with
     | Inl (sh, vals) -> add ("OK " ^ fmt_list sh ^ " " ^ fmt_bits_list vals)
     | Inr _ -> add "ERR")
  | ["cwrite"; "npy"; sh; _; bits; wsched; wfail] ->
    (match write_pieces (npy_pieces (parse_list sh) (parse_bits_list bits)) (mk_writer (parse_list wsched) (parse_opt wfail)) with
     | Inl w -> add ("OK " ^ hex_of_bytes w.accepted)
     | Inr _ -> add "ERR")
  (* frames OFFSET HEX : the record region (from OFFSET on) of an uncompressed BCF stream cut into records by the model of the
     repaired reader (Model/Frames.v): how many records are read, and whether the stream then ends cleanly (D) or not (E) *)
  | ["frames"; off; hex] ->
    let rec drop n l = if n <= 0 then l else (match l with [] -> [] | _ :: t -> drop (n - 1) t) in
    let (n, ok) = count_frames (drop (int_of_string off) (bytes_of_hex hex)) in
    add (zs n ^ (if ok then " D" else " E"))
  | _ -> add "BAD-CASE"

let run_case line =
  let toks = split_ws line in
  match toks with
  | [] -> ()
  | op :: _ ->
    (match op with
     | "get" | "wnew" | "getmut" | "getaxis" | "view" | "axisiter" | "indices" | "indiceshist" | "viewhist" | "toarray" | "axisfold" | "sum" -> run_array toks
     | "fold" | "marg" | "keep" | "project" | "pmf" | "binom" -> run_spectrum toks
     | "npyw" | "npyr" | "textw" | "read" | "fmt" | "parse" | "detect" -> run_bytes toks
     | "classify" | "sites" | "create" | "smapfile" | "genosm" | "genosv" -> run_create toks
     | "stat" | "viewrun" -> run_stat toks
     | "cnpy" | "cwrite" | "frames" -> run_stream toks
     | _ -> add ("UNKNOWN-OP " ^ op))

let () =
  try
    while true do
      let line = S.trim (input_line stdin) in
      if line <> "" && line.[0] <> '#' then begin
        Buffer.clear buf;
        (try run_case line with e -> add (" MODEL-EXN " ^ Printexc.to_string e));
        print_endline (S.trim (Buffer.contents buf))
      end
    done
  with End_of_file -> ()
