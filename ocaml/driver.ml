(* driver.ml: runs the extracted Coq model on case lines (stdin) and prints one observation per
   line, in the same grammar as harness/src (sfs-probe). nat, N and Z are all Z.t. *)
module ZA = Z   (* zarith; the extracted model also defines a module Z *)
open Model

let zs = ZA.to_string
let parse_list s = if s = "-" then [] else List.map ZA.of_string (String.split_on_char ',' s)
let fmt_list l = if l = [] then "-" else String.concat "," (List.map zs l)
let split_ws s = List.filter (fun t -> t <> "") (String.split_on_char ' ' s)

let rec seqz a n = if ZA.leq n ZA.zero then [] else a :: seqz (ZA.succ a) (ZA.pred n)
let ramp sh = { adata = seqz ZA.zero (elements sh); ashape = sh }

let buf = Buffer.create 1024
let add s = Buffer.add_string buf s

let run_array toks =
  match toks with
  | ["get"; sh; idx] ->
    (match get (ramp (parse_list sh)) (parse_list idx) with
     | Some v -> add ("Some " ^ zs v) | None -> add "None")
  | ["getaxis"; sh; a; i] ->
    (match get_axis (ramp (parse_list sh)) (ZA.of_string a) (ZA.of_string i) with
     | Some v -> add ("Some dims=" ^ string_of_int (List.length v.vshape)) | None -> add "None")
  | ["view"; sh; a; i; k] ->
    (match get_axis (ramp (parse_list sh)) (ZA.of_string a) (ZA.of_string i) with
     | None -> add "None"
     | Some v ->
       let s = ref (viter_new v) in
       add ("L" ^ zs (vlen v !s));
       for _ = 1 to int_of_string k do
         let (s', o) = vnext v !s in
         s := s';
         (match o with Some x -> add (" S" ^ zs x) | None -> add " N");
         add (" L" ^ zs (vlen v !s))
       done)
  | ["axisiter"; sh; a; k] ->
    let x = ramp (parse_list sh) and a = ZA.of_string a in
    let i = ref ZA.zero in
    add ("L" ^ zs (axis_len x a !i));
    for _ = 1 to int_of_string k do
      let (i', o) = axis_next x a !i in
      i := i';
      (match o with
       | Some v -> let items = view_items v in
         add (" V" ^ (if items = [] then "-" else String.concat ";" (List.map zs items)))
       | None -> add " N");
      add (" L" ^ zs (axis_len x a !i))
    done
  | ["indices"; sh; k] ->
    let sh = parse_list sh in
    let total = elements sh in
    let i = ref ZA.zero in
    add ("L" ^ zs (ind_len !i total));
    for _ = 1 to int_of_string k do
      let (i', o) = ind_next sh !i total in
      i := i';
      (match o with Some idx -> add (" I" ^ fmt_list idx) | None -> add " N");
      add (" L" ^ zs (ind_len !i total))
    done
  | ["sum"; sh; a; data] ->
    let x = { adata = parse_list data; ashape = parse_list sh } in
    let s = z_sum_axis x (ZA.of_string a) in
    add (fmt_list s.ashape ^ " " ^ fmt_list s.adata)
  | _ -> add "BAD-CASE"


(* ---------------------------------------------------------------- spectrum-level ops *)
let parse_q tok : qc =
  match String.split_on_char '/' tok with
  | [n] -> qc_of (ZA.of_string n) ZA.one
  | [n; d] -> qc_of (ZA.of_string n) (ZA.of_string d)
  | _ -> failwith "bad rational"
let parse_qs s = if s = "-" then [] else List.map parse_q (String.split_on_char ',' s)
let fmt_q (q : qc) =
  let n = qc_num q and d = qc_den q in
  if ZA.equal d ZA.one then zs n else zs n ^ "/" ^ zs d
let fmt_qs l = if l = [] then "-" else String.concat "," (List.map fmt_q l)
let mk_spec sh data : spectrum = { adata = parse_qs data; ashape = parse_list sh }
let fmt_spec (y : spectrum) = fmt_list y.ashape ^ " " ^ fmt_qs y.adata

let fill_of = function
  | "nan" -> FillNan | "zero" -> FillZero | "minus-one" -> FillMinusOne | "inf" -> FillInf
  | _ -> failwith "bad fill"
let fmt_cell = function
  | Val q -> fmt_q q
  | Filled FillNan -> "nan" | Filled FillZero -> "0" | Filled FillMinusOne -> "-1" | Filled FillInf -> "inf"

let fmt_perr = function
  | PEmpty -> "ERR empty"
  | PInvalidProjection (d, f, t) -> "ERR invalid " ^ zs d ^ " " ^ zs f ^ " " ^ zs t
  | PUnequalDimensions (f, t) -> "ERR unequal " ^ zs f ^ " " ^ zs t
  | PZero -> "ERR zero"

let run_spectrum toks =
  match toks with
  | ["fold"; sh; data; fill] ->
    let x = mk_spec sh data in
    let cells = folded_cells x (fill_of fill) in
    add (fmt_list x.ashape ^ " " ^ (if cells = [] then "-" else String.concat "," (List.map fmt_cell cells)))
  | ["marg"; sh; data; axes] ->
    (match marginalize (mk_spec sh data) (parse_list axes) with
     | Inl y -> add ("OK " ^ fmt_spec y)
     | Inr (DuplicateAxis a) -> add ("ERR dup " ^ zs a)
     | Inr (AxisOutOfBounds (a, d)) -> add ("ERR oob " ^ zs a ^ " " ^ zs d)
     | Inr (TooManyAxes (n, d)) -> add ("ERR many " ^ zs n ^ " " ^ zs d))
  | ["keep"; d; keep] -> add (fmt_list (keep_to_remove (ZA.of_string d) (parse_list keep)))
  | ["project"; sh; data; tosh] ->
    (match project (mk_spec sh data) (parse_list tosh) with
     | Inl y -> add ("OK " ^ fmt_spec y)
     | Inr e -> add (fmt_perr e))
  | ["pmf"; a; b; c; d] -> add (fmt_q (hyp (ZA.of_string a) (ZA.of_string b) (ZA.of_string c) (ZA.of_string d)))
  | ["binom"; n; k] -> add (zs (binomN (ZA.of_string n) (ZA.of_string k)))
  | _ -> add "BAD-CASE"

let run_case line =
  let toks = split_ws line in
  match toks with
  | [] -> ()
  | op :: _ ->
    (match op with
     | "get" | "getaxis" | "view" | "axisiter" | "indices" | "sum" -> run_array toks
     | "fold" | "marg" | "keep" | "project" | "pmf" | "binom" -> run_spectrum toks
     | _ -> add ("UNKNOWN-OP " ^ op))

let () =
  try
    while true do
      let line = String.trim (input_line stdin) in
      if line <> "" && line.[0] <> '#' then begin
        Buffer.clear buf;
        (try run_case line with e -> add (" MODEL-EXN " ^ Printexc.to_string e));
        print_endline (String.trim (Buffer.contents buf))
      end
    done
  with End_of_file -> ()
