#!/bin/sh
# Extracts the Coq model and builds the OCaml driver into /verif/.cache/ocaml/driver
set -e
ROOT=$(cd "$(dirname "$0")/.." && pwd)
OUT=$ROOT/.cache/ocaml
mkdir -p "$OUT"
cd "$OUT"
coqc -q -Q "$ROOT/coq/theories/Model" Sfs -Q "$ROOT/coq/theories/Proofs" Sfs \
     -Q "$ROOT/coq/theories/Extract" Sfs "$ROOT/coq/theories/Extract/Extract.v" -o "$OUT/Extract.vo" >/dev/null
cp "$ROOT/ocaml/driver.ml" "$OUT/driver.ml"
ocamlfind ocamlopt -O2 -package zarith -linkpkg -w -a model.mli model.ml driver.ml -o driver 2>/dev/null \
  || ocamlfind ocamlopt -package zarith -linkpkg -w -a model.mli model.ml driver.ml -o driver
